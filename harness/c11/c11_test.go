// C11 - results do not depend on worker count or scheduling.
//
//	TestPropPermutations  layer 1 (in-process): the real report multiset of a generated multi-file
//	                      input, fed in rapid-drawn arrival orders through
//	                      Summary.Report -> SortReports -> Dedup -> console + JSON; every order must
//	                      render byte-identically (canonical = the serial order).
//	TestPropWorkers       layer 2: the real binary, --workers x GOMAXPROCS; stderr, --json, exit
//	                      status identical for every setting.
//	TestPropRace          layer 3: the -race build over the same matrix (a share of the inputs online,
//	                      against a fake Prometheus in this process); any DATA RACE is a violation.
//	TestReplay            re-runs one stored case.
//
// Only report multisets produced by real checks on real files are permuted.
package c11

import (
	"bytes"
	"context"
	"errors"
	"fmt"
	"hash/fnv"
	"net/http"
	"net/http/httptest"
	"os"
	"path/filepath"
	"regexp"
	"runtime/debug"
	"sort"
	"strings"
	"sync"
	"sync/atomic"
	"testing"
	"time"

	"github.com/prometheus/client_golang/prometheus"
	"github.com/prometheus/common/model"
	"pgregory.net/rapid"

	"github.com/cloudflare/pint/internal/checks"
	"github.com/cloudflare/pint/internal/config"
	"github.com/cloudflare/pint/internal/diags"
	"github.com/cloudflare/pint/internal/discovery"
	"github.com/cloudflare/pint/internal/git"
	"github.com/cloudflare/pint/internal/parser"
	"github.com/cloudflare/pint/internal/promapi"
	"github.com/cloudflare/pint/internal/reporter"
	"github.com/cloudflare/pint/verifharness/c05"
	_ "github.com/cloudflare/pint/verifharness/lint" // its init silences slog
	"github.com/cloudflare/pint/verifharness/vstat"
)

const prop = "C11"

type Setting struct {
	Workers  int `json:"workers"`
	MaxProcs int `json:"gomaxprocs"`
}

type Case struct {
	Layer    string    `json:"layer"` // "perm" | "workers" | "race"
	Input    c05.Input `json:"input"`
	Offline  bool      `json:"offline"`
	ArgStyle string    `json:"arg_style,omitempty"`
	ShowDup  bool      `json:"show_duplicates,omitempty"`
	MinSev   string    `json:"min_severity,omitempty"`
	Perms    [][]int   `json:"perms,omitempty"`    // layer 1: arrival orders (indices into the serial report stream)
	Settings []Setting `json:"settings,omitempty"` // layers 2/3; the first one is the canonical run
}

var (
	errInfra = errors.New("infrastructure")
	errSkip  = errors.New("precondition not met")
)

// ---------------------------------------------------------------------------
// fake Prometheus (only so that online checks and the promapi cache run
// concurrently in the binary; answers are fixed, empty-but-valid)

var (
	promOnce sync.Once
	promSrv  *httptest.Server
)

func promURI() string {
	promOnce.Do(func() {
		ok := func(w http.ResponseWriter, body string) {
			w.Header().Set("Content-Type", "application/json")
			w.WriteHeader(200)
			_, _ = w.Write([]byte(body))
		}
		mux := http.NewServeMux()
		mux.HandleFunc("/api/v1/query", func(w http.ResponseWriter, r *http.Request) {
			ok(w, `{"status":"success","data":{"resultType":"vector","result":[]}}`)
		})
		mux.HandleFunc("/api/v1/query_range", func(w http.ResponseWriter, r *http.Request) {
			ok(w, `{"status":"success","data":{"resultType":"matrix","result":[]}}`)
		})
		mux.HandleFunc("/api/v1/status/config", func(w http.ResponseWriter, r *http.Request) {
			ok(w, `{"status":"success","data":{"yaml":"global:\n  scrape_interval: 1m\n"}}`)
		})
		mux.HandleFunc("/api/v1/status/flags", func(w http.ResponseWriter, r *http.Request) {
			ok(w, `{"status":"success","data":{"storage.tsdb.retention.time":"15d"}}`)
		})
		mux.HandleFunc("/api/v1/metadata", func(w http.ResponseWriter, r *http.Request) {
			ok(w, `{"status":"success","data":{}}`)
		})
		// /partial/<mask>/...: the same API, but query and query_range answer 504 when the
		// expression hashes into the 4-bit mask (a main server that is partially unavailable)
		promSrv = httptest.NewServer(http.HandlerFunc(func(w http.ResponseWriter, r *http.Request) {
			if rest, ok := strings.CutPrefix(r.URL.Path, "/fast/"); ok {
				// /fast/<case>/...: answers every instant query at once with one series and
				// records its own service time per request (queueing layer)
				start := time.Now()
				id, path, _ := strings.Cut(rest, "/")
				r.URL.Path = "/" + path
				if strings.HasSuffix(path, "api/v1/query") {
					w.Header().Set("Content-Type", "application/json")
					_, _ = w.Write([]byte(`{"status":"success","data":{"resultType":"vector","result":[{"metric":{},"value":[1700000000,"1"]}]}}`))
				} else {
					mux.ServeHTTP(w, r)
				}
				if v, ok := fastStats.Load(id); ok {
					v.(*serviceStats).add(time.Since(start))
				}
				return
			}
			if rest, ok := strings.CutPrefix(r.URL.Path, "/partial/"); ok {
				maskStr, path, _ := strings.Cut(rest, "/")
				mask := 0
				_, _ = fmt.Sscanf(maskStr, "%d", &mask)
				r.URL.Path = "/" + path
				if strings.HasSuffix(path, "api/v1/query") || strings.HasSuffix(path, "api/v1/query_range") {
					_ = r.ParseForm()
					h := fnv.New32a()
					_, _ = h.Write([]byte(r.Form.Get("query")))
					if mask&(1<<(h.Sum32()%4)) != 0 {
						time.Sleep(5 * time.Millisecond)
						w.WriteHeader(http.StatusGatewayTimeout)
						_, _ = w.Write([]byte("504 Gateway Timeout\n"))
						return
					}
				}
			}
			mux.ServeHTTP(w, r)
		}))
	})
	return promSrv.URL
}

// serviceStats is what the /fast/ fake observed for one case.
type serviceStats struct {
	mu       sync.Mutex
	requests int
	slowest  time.Duration
}

func (s *serviceStats) add(d time.Duration) {
	s.mu.Lock()
	s.requests++
	if d > s.slowest {
		s.slowest = d
	}
	s.mu.Unlock()
}

var (
	fastStats sync.Map // case id -> *serviceStats
	fastSeq   atomic.Int64
)

// ---------------------------------------------------------------------------
// layer 1: in-process

// collectRaw mirrors checkRules (cmd/pint/scan.go) serially and returns the
// report stream *before* it enters the Summary.
//
// job[i] identifies the (entry, check) job that produced raw[i]: a job runs on one
// worker, which sends its problems in order over one channel, so the relative
// order of the reports of one job is the same in every schedule.
func collectRaw(dir string, in c05.Input, offline bool) (raw []reporter.Report, job []int, err error) {
	defer func() {
		if r := recover(); r != nil {
			err = fmt.Errorf("%w: pint panicked while checking: %v\n%s", errSkip, r, debug.Stack())
		}
	}()
	if err = c05.Materialize(dir, in, promURI()); err != nil {
		return nil, nil, fmt.Errorf("%w: %v", errInfra, err)
	}
	// like the binary: run from inside the directory, with relative paths (path
	// matchers of the config see the same strings)
	restore, cherr := chdir(dir)
	if cherr != nil {
		return nil, nil, fmt.Errorf("%w: %v", errInfra, cherr)
	}
	defer restore()
	cfg, cerr := loadConfig(offline)
	if cerr != nil {
		return nil, nil, fmt.Errorf("%w: config: %v", errSkip, cerr)
	}
	var paths []string
	for _, n := range in.Names() {
		paths = append(paths, n)
	}
	schema := parser.PrometheusSchema
	if cfg.Parser.Schema == config.SchemaThanos {
		schema = parser.ThanosSchema
	}
	names := model.UTF8Validation
	if cfg.Parser.Names == config.NamesLegacy {
		names = model.LegacyValidation
	}
	finder := discovery.NewGlobFinder(paths,
		git.NewPathFilter(
			config.MustCompileRegexes(cfg.Parser.Include...),
			config.MustCompileRegexes(cfg.Parser.Exclude...),
			config.MustCompileRegexes(cfg.Parser.Relaxed...),
		), schema, names, cfg.Owners.CompileAllowed())
	entries, ferr := finder.Find()
	if ferr != nil {
		return nil, nil, fmt.Errorf("%w: find: %v", errSkip, ferr)
	}
	ctx := context.WithValue(context.Background(), config.CommandKey, config.LintCommand)
	gen := config.NewPrometheusGenerator(cfg, prometheus.NewRegistry())
	defer gen.Stop()
	if gerr := gen.GenerateStatic(); gerr != nil {
		return nil, nil, fmt.Errorf("%w: GenerateStatic: %v", errSkip, gerr)
	}
	ctx = context.WithValue(ctx, promapi.AllPrometheusServers, gen.Servers())
	for _, s := range cfg.Check {
		settings, _ := s.Decode()
		ctx = context.WithValue(ctx, checks.SettingsKey(s.Name), settings)
	}
	njobs := 0
	for _, entry := range entries {
		if entry.PathError != nil && entry.State == discovery.Removed {
			continue
		}
		if entry.Rule.Error.Err != nil && entry.State == discovery.Removed {
			continue
		}
		for _, check := range cfg.GetChecksForEntry(ctx, gen, entry) {
			njobs++
			for _, problem := range check.Check(ctx, entry, entries) {
				job = append(job, njobs)
				raw = append(raw, reporter.Report{
					Path:          entry.Path,
					ModifiedLines: entry.ModifiedLines,
					Rule:          entry.Rule,
					Problem:       problem,
					Owner:         entry.Owner,
				})
			}
		}
	}
	return raw, job, nil
}

func chdir(dir string) (func(), error) {
	old, err := os.Getwd()
	if err != nil {
		return nil, err
	}
	if err = os.Chdir(dir); err != nil {
		return nil, err
	}
	return func() { _ = os.Chdir(old) }, nil
}

// loadConfig is actionSetup (cmd/pint/main.go) for `-c .pint.hcl [--offline]`.
func loadConfig(offline bool) (config.Config, error) {
	cfg, fromFile, err := config.Load(".pint.hcl", true)
	if err != nil {
		return cfg, err
	}
	if fromFile {
		cfg.Parser.Exclude = append(cfg.Parser.Exclude, ".pint.hcl")
	}
	cfg.SetDisabledChecks(nil)
	if offline {
		cfg.DisableOnlineChecks()
	}
	return cfg, nil
}

// arrivalOrder turns an arbitrary permutation into an order a schedule can
// produce: the slots a job's reports occupy are kept, but the job's reports
// fill them in their emission order.
func arrivalOrder(perm, job []int) []int {
	byJob := map[int][]int{}
	for i, j := range job {
		byJob[j] = append(byJob[j], i)
	}
	next := map[int]int{}
	out := make([]int, len(perm))
	for p, idx := range perm {
		j := job[idx]
		out[p] = byJob[j][next[j]]
		next[j]++
	}
	return out
}

func cloneReport(r reporter.Report) reporter.Report {
	r.Problem.Diagnostics = append([]diags.Diagnostic(nil), r.Problem.Diagnostics...)
	r.Duplicates = nil
	r.IsDuplicate = false
	return r
}

type rendered struct {
	Console    string
	ConsoleDup string
	JSON       string
	Counts     string
	Folding    string
	Err        string
}

func repKey(r reporter.Report) string {
	var d []string
	for _, x := range r.Problem.Diagnostics {
		d = append(d, fmt.Sprintf("%d:%d:%s", x.FirstColumn, x.LastColumn, x.Message))
	}
	sort.Strings(d)
	return fmt.Sprintf("%s|%d-%d|%s|%s|%s|%s|%s|%s", r.Path.Name, r.Problem.Lines.First, r.Problem.Lines.Last, r.Problem.Severity,
		r.Problem.Reporter, r.Problem.Summary, r.Problem.Details, r.Rule.Name(), strings.Join(d, "¦"))
}

// pipeline is what lint.go does with the stream once checkRules returns.
func pipeline(raw []reporter.Report, perm []int) (out rendered) {
	defer func() {
		if r := recover(); r != nil {
			out.Err = fmt.Sprintf("panic: %v\n%s", r, debug.Stack())
		}
	}()
	var s reporter.Summary
	for _, i := range perm {
		s.Report(cloneReport(raw[i]))
	}
	s.SortReports()
	s.Dedup()
	var b bytes.Buffer
	if err := reporter.NewConsoleReporter(&b, checks.Information, true, false).Submit(s); err != nil {
		out.Err = "console: " + err.Error()
		return out
	}
	out.Console = b.String()
	b.Reset()
	if err := reporter.NewConsoleReporter(&b, checks.Information, true, true).Submit(s); err != nil {
		out.Err = "console(show-duplicates): " + err.Error()
		return out
	}
	out.ConsoleDup = b.String()
	b.Reset()
	if err := reporter.NewJSONReporter(&b).Submit(s); err != nil {
		out.Err = "json: " + err.Error()
		return out
	}
	out.JSON = b.String()
	cnt := s.CountBySeverity()
	out.Counts = fmt.Sprintf("I=%d W=%d B=%d F=%d", cnt[checks.Information], cnt[checks.Warning], cnt[checks.Bug], cnt[checks.Fatal])
	var f strings.Builder
	for i, r := range s.Reports() {
		fmt.Fprintf(&f, "%d dup=%v n=%d %s\n", i, r.IsDuplicate, len(r.Duplicates), repKey(r))
		for _, d := range r.Duplicates {
			fmt.Fprintf(&f, "   + %s\n", repKey(*d))
		}
	}
	out.Folding = f.String()
	return out
}

func firstDiff(a, b string) string {
	la, lb := strings.Split(a, "\n"), strings.Split(b, "\n")
	for i := 0; i < len(la) || i < len(lb); i++ {
		var x, y string
		if i < len(la) {
			x = la[i]
		} else {
			x = "<end>"
		}
		if i < len(lb) {
			y = lb[i]
		} else {
			y = "<end>"
		}
		if x != y {
			return fmt.Sprintf("line %d:\n    A: %s\n    B: %s", i+1, x, y)
		}
	}
	return "(no difference)"
}

type permStats struct {
	reports, files, dupGroups, ties int
	sig                             string
	job                             []int
}

func (p permStats) nontrivial() bool {
	return p.reports >= 8 && p.files >= 2 && p.dupGroups >= 1 && p.ties >= 2
}

func bucket(n int, edges ...int) string {
	for _, e := range edges {
		if n < e {
			return fmt.Sprintf("<%d", e)
		}
	}
	return fmt.Sprintf(">=%d", edges[len(edges)-1])
}

func (p permStats) class() string {
	return fmt.Sprintf("perm:reports%s:files=%d:dupgroups%s:ties%s", bucket(p.reports, 1, 8, 20, 50), min(p.files, 4), bucket(p.dupGroups, 1, 3), bucket(p.ties, 2, 6))
}

// checkPerm runs layer 1 on a case; it returns per-input statistics and the
// index of the first permutation that renders differently.
func checkPerm(c Case) (st permStats, err error) {
	dir, derr := c05.MkScratch("vc11p-")
	if derr != nil {
		return st, fmt.Errorf("%w: %v", errInfra, derr)
	}
	defer os.RemoveAll(dir)
	raw, job, rerr := collectRaw(dir, c.Input, c.Offline)
	if rerr != nil {
		return st, rerr
	}
	st.job = job
	restore, cherr := chdir(dir)
	if cherr != nil {
		return st, fmt.Errorf("%w: %v", errInfra, cherr)
	}
	defer restore()
	st.reports = len(raw)
	n := len(raw)
	ident := make([]int, n)
	for i := range ident {
		ident[i] = i
	}
	canon := pipeline(raw, ident)
	if canon.Err != "" {
		return st, fmt.Errorf("%w: serial order does not render: %s", errSkip, canon.Err)
	}
	// statistics from the serial stream
	files := map[string]bool{}
	tie := map[string]int{}
	var keys []string
	for _, r := range raw {
		files[r.Path.Name] = true
		tie[fmt.Sprintf("%s:%d", r.Path.Name, r.Problem.Lines.First)]++
		keys = append(keys, strings.TrimPrefix(repKey(r), dir))
	}
	sort.Strings(keys)
	st.sig = strings.Join(keys, "\n")
	st.files = len(files)
	for _, v := range tie {
		if v >= 2 {
			st.ties += v
		}
	}
	st.dupGroups = strings.Count(canon.Folding, " dup=false n=") - strings.Count(canon.Folding, " dup=false n=0 ")
	for pi, perm := range c.Perms {
		if len(perm) != n {
			return st, fmt.Errorf("%w: permutation %d has %d indices for %d reports", errSkip, pi, len(perm), n)
		}
		for _, i := range perm {
			if i < 0 || i >= n {
				return st, fmt.Errorf("%w: permutation %d is not over 0..%d", errSkip, pi, n-1)
			}
		}
		perm = arrivalOrder(perm, job)
		got := pipeline(raw, perm)
		cmp := []struct{ what, a, b string }{
			{"render error", canon.Err, got.Err},
			{"CountBySeverity", canon.Counts, got.Counts},
			{"JSON output", canon.JSON, got.JSON},
			{"console output", canon.Console, got.Console},
			{"console output (--show-duplicates)", canon.ConsoleDup, got.ConsoleDup},
			{"duplicate folding", canon.Folding, got.Folding},
		}
		for _, x := range cmp {
			if x.a != x.b {
				return st, fmt.Errorf("arrival order changes the %s: serial order (A) vs arrival order #%d %v (B), first difference at %s",
					x.what, pi, perm, firstDiff(strings.ReplaceAll(x.a, dir+"/", ""), strings.ReplaceAll(x.b, dir+"/", "")))
			}
		}
	}
	return st, nil
}

// ---------------------------------------------------------------------------
// layers 2 and 3: the real binary

var (
	reWorkers  = regexp.MustCompile(`workers=\d+`)
	reDupMark  = regexp.MustCompile(`\[\+\d+ duplicates\]`)
	reRaceHead = "WARNING: DATA RACE"
)

// splitStderr separates what the console reporter printed (the statement's
// "console output": every line that is not a log record) from pint's log
// records.  Log records written by the main goroutine after the checks are a
// function of the summary and are compared in every mode; records written by
// the workers interleave freely, so they are compared as a sorted multiset, and
// only offline (online, how often a cache miss is logged is a scheduling matter
// that belongs to C14).
func splitStderr(s string) (report, mainLogs, allLogs string) {
	var rep, mainL, all []string
	for _, l := range strings.Split(s, "\n") {
		if !strings.HasPrefix(l, "level=") {
			rep = append(rep, l)
			continue
		}
		l = reWorkers.ReplaceAllString(l, "workers=N")
		all = append(all, l)
		for _, m := range []string{`msg="Problems found"`, `msg="Some problems are duplicated`, `msg="Execution completed with error(s)"`, `problem(s) not visible because of`} {
			if strings.Contains(l, m) {
				mainL = append(mainL, l)
				break
			}
		}
	}
	sort.Strings(all)
	return strings.Join(rep, "\n"), strings.Join(mainL, "\n"), strings.Join(all, "\n")
}

func (c Case) args(s Setting, jsonPath string) []string {
	var a []string
	if c.ShowDup {
		a = append(a, "-s")
	}
	a = append(a, "--no-color")
	if c.Offline {
		a = append(a, "--offline")
	}
	a = append(a, "--workers", fmt.Sprint(s.Workers), "-c", ".pint.hcl", "lint")
	if c.MinSev != "" {
		a = append(a, "--min-severity", c.MinSev)
	}
	a = append(a, "--json", jsonPath)
	return append(a, c05.LintArgs(c.Input, c.ArgStyle)...)
}

type binStats struct {
	runs                            int
	reports, files, dupGroups, ties int
	completed                       bool
	discard                         string
	online                          bool
	canonJSON                       string
}

func (b binStats) nontrivial() bool {
	return b.completed && b.reports >= 8 && b.files >= 2 && b.dupGroups >= 1 && b.ties >= 2
}

func (b binStats) class(layer string) string {
	if !b.completed {
		return layer + ":discarded:" + b.discard
	}
	on := "offline"
	if b.online {
		on = "online"
	}
	return fmt.Sprintf("%s:%s:reports%s:files=%d:dupgroups%s:ties%s", layer, on, bucket(b.reports, 1, 8, 20, 50), min(b.files, 4), bucket(b.dupGroups, 1, 3), bucket(b.ties, 2, 6))
}

func checkBinary(c Case, bin string, race bool) (st binStats, err error) {
	root, derr := c05.MkScratch("vc11b-")
	if derr != nil {
		return st, fmt.Errorf("%w: %v", errInfra, derr)
	}
	defer os.RemoveAll(root)
	work, out := filepath.Join(root, "in"), filepath.Join(root, "out")
	_ = os.MkdirAll(work, 0o755)
	_ = os.MkdirAll(out, 0o755)
	st.online = c.Input.Online() && !c.Offline
	uri := ""
	if c.Input.Online() {
		uri = promURI()
	}
	if merr := c05.Materialize(work, c.Input, uri); merr != nil {
		return st, fmt.Errorf("%w: %v", errInfra, merr)
	}
	results := make([]c05.RunResult, len(c.Settings))
	var wg sync.WaitGroup
	sem := make(chan struct{}, 6)
	for i, s := range c.Settings {
		wg.Add(1)
		go func(i int, s Setting) {
			defer wg.Done()
			sem <- struct{}{}
			defer func() { <-sem }()
			jp := filepath.Join(out, fmt.Sprintf("out%d.json", i))
			results[i] = c05.RunPint(bin, work, c.args(s, jp), []string{fmt.Sprintf("GOMAXPROCS=%d", s.MaxProcs)}, jp)
		}(i, s)
	}
	wg.Wait()
	st.runs = len(results)
	for i, r := range results {
		if r.TimedOut || r.StartErr != nil {
			return st, fmt.Errorf("%w: run %d %+v: timeout=%v err=%v", errInfra, i, c.Settings[i], r.TimedOut, r.StartErr)
		}
	}
	if race {
		for i, r := range results {
			if idx := strings.Index(r.Stderr, reRaceHead); idx >= 0 {
				rep := r.Stderr[idx:]
				if len(rep) > 6000 {
					rep = rep[:6000] + "\n..."
				}
				return st, fmt.Errorf("the race detector reports a data race with --workers=%d GOMAXPROCS=%d:\n%s", c.Settings[i].Workers, c.Settings[i].MaxProcs, rep)
			}
		}
	}
	// the Go runtime aborting the process (concurrent map access, deadlock ...) is a
	// result that depends on scheduling, whichever run it hits
	for i, r := range results {
		if idx := strings.Index(r.Stderr, "fatal error:"); idx >= 0 {
			return st, fmt.Errorf("pint died with a Go runtime fatal error (exit status %d) with --workers=%d GOMAXPROCS=%d:\n%s",
				r.Exit, c.Settings[i].Workers, c.Settings[i].MaxProcs, tailOf(r.Stderr[idx:min(len(r.Stderr), idx+1500)], 1500))
		}
	}
	canon := results[0]
	if !canon.JSONOK {
		// the canonical run did not complete linting (config error, crash ...): every other
		// setting must fail the same way, but there is no result to compare
		st.discard = "canonical-run-incomplete"
		if strings.Contains(canon.Stderr, "panic:") {
			st.discard = "canonical-run-crashed"
		}
	} else {
		st.completed = true
		st.canonJSON = canon.JSONRaw
		st.reports = len(canon.Reports)
		files := map[string]bool{}
		tie := map[string]int{}
		same := map[string]int{}
		for _, r := range canon.Reports {
			files[r.Path] = true
			first := 0
			if len(r.Lines) > 0 {
				first = r.Lines[0]
			}
			tie[fmt.Sprintf("%s:%d", r.Path, first)]++
			same[r.Reporter+"|"+r.Problem+"|"+r.Severity]++
		}
		st.files = len(files)
		for _, v := range tie {
			if v >= 2 {
				st.ties += v
			}
		}
		// duplicate groups: the console marker when it is displayed, else reports that agree
		// on reporter + summary + severity (what the JSON shows of isSameIssue)
		st.dupGroups = len(reDupMark.FindAllString(canon.Stderr, -1))
		if st.dupGroups == 0 && (c.ShowDup || c.MinSev != "info") {
			for _, v := range same {
				if v >= 2 {
					st.dupGroups++
				}
			}
		}
	}
	cRep, cMain, cAll := splitStderr(canon.Stderr)
	for i := 1; i < len(results); i++ {
		r := results[i]
		a, b := c.Settings[0], c.Settings[i]
		hdr := fmt.Sprintf("--workers=%d GOMAXPROCS=%d (A) vs --workers=%d GOMAXPROCS=%d (B)", a.Workers, a.MaxProcs, b.Workers, b.MaxProcs)
		if r.Exit != canon.Exit {
			return st, fmt.Errorf("%s: exit status differs: %d vs %d\n--- stderr B (tail) ---\n%s", hdr, canon.Exit, r.Exit, tailOf(r.Stderr, 1500))
		}
		if r.JSONOK != canon.JSONOK || r.JSONRaw != canon.JSONRaw {
			return st, fmt.Errorf("%s: --json report differs, first difference at %s", hdr, firstDiff(canon.JSONRaw, r.JSONRaw))
		}
		rRep, rMain, rAll := splitStderr(r.Stderr)
		if rRep != cRep {
			return st, fmt.Errorf("%s: console report (stderr) differs, first difference at %s", hdr, firstDiff(cRep, rRep))
		}
		if rMain != cMain {
			return st, fmt.Errorf("%s: closing log records differ, first difference at %s", hdr, firstDiff(cMain, rMain))
		}
		if !st.online && rAll != cAll {
			return st, fmt.Errorf("%s: the sets of log records differ (offline run), first difference at %s", hdr, firstDiff(cAll, rAll))
		}
	}
	return st, nil
}

// mirrorJSON renders the input through the in-process pipeline of layer 1 (serial
// order) with paths made relative, for the cross-check against the binary's --json.
func mirrorJSON(c Case) (string, error) {
	dir, err := c05.MkScratch("vc11m-")
	if err != nil {
		return "", err
	}
	defer os.RemoveAll(dir)
	raw, _, err := collectRaw(dir, c.Input, c.Offline)
	if err != nil {
		return "", err
	}
	restore, err := chdir(dir)
	if err != nil {
		return "", err
	}
	defer restore()
	ident := make([]int, len(raw))
	for i := range ident {
		ident[i] = i
	}
	out := pipeline(raw, ident)
	if out.Err != "" {
		return "", errors.New(out.Err)
	}
	return out.JSON, nil
}

func tailOf(s string, n int) string {
	if len(s) > n {
		return "..." + s[len(s)-n:]
	}
	return s
}

// ---------------------------------------------------------------------------
// known-finding classes

// classDetailsTie: two check blocks of one kind whose `comment` differs can report
// the same problem on the same lines with different Details; Details is neither part
// of the sort key nor of isEqual, so which one comes first in the JSON report
// depends on the arrival order.
const classDetailsTie = "details-tie"

var checkKinds = []string{"annotation", "label", "for", "keep_firing_for", "name", "aggregate", "reject", "report"}

// commentsByKind lists the distinct `comment` values per check-block kind of a generated config.
func commentsByKind(cfg string) map[string]map[string]bool {
	out := map[string]map[string]bool{}
	cur := ""
	comment := ""
	flush := func() {
		if cur != "" {
			if out[cur] == nil {
				out[cur] = map[string]bool{}
			}
			out[cur][comment] = true
		}
		cur, comment = "", ""
	}
	for _, l := range strings.Split(cfg, "\n") {
		if !strings.HasPrefix(l, "  ") || strings.HasPrefix(l, "    ") {
			if cur != "" && strings.HasPrefix(strings.TrimSpace(l), "comment = ") {
				comment = strings.TrimPrefix(strings.TrimSpace(l), "comment = ")
			}
			continue
		}
		t := strings.TrimSpace(l)
		if t == "}" {
			flush()
			continue
		}
		for _, k := range checkKinds {
			if strings.HasPrefix(t, k+" ") && strings.HasSuffix(t, "{") {
				flush()
				cur = k
			}
		}
	}
	flush()
	return out
}

// knownClass names the listed structural class a failure falls into ("" = none).
func knownClass(c Case, err error) string {
	if err == nil {
		return ""
	}
	msg := err.Error()
	if strings.Contains(msg, "changes the JSON output") || strings.Contains(msg, "--json report differs") {
		for _, set := range commentsByKind(c.Input.Config) {
			if len(set) >= 2 {
				return classDetailsTie
			}
		}
	}
	return ""
}

// excluded returns the classes the generators avoid by construction: the ones
// listed as known in known_findings.json, plus VERIF_C11_EXCLUDE (comma separated;
// for exploring behind a finding that is not listed yet).
func excluded() map[string]bool {
	out := map[string]bool{}
	for cls := range vstat.KnownClasses(prop) {
		out[cls] = true
	}
	for _, cls := range strings.Split(os.Getenv("VERIF_C11_EXCLUDE"), ",") {
		if cls = strings.TrimSpace(cls); cls != "" {
			out[cls] = true
		}
	}
	return out
}

// ---------------------------------------------------------------------------
// generators

func genOpts(online, bulk bool) c05.GenOpts {
	return c05.GenOpts{CommentPerKind: excluded()[classDetailsTie],
		MinFiles: 2, MaxFiles: 5, MaxGroups: 2, MaxRules: 5, PoolSize: 5, ParseErrors: true, Symlinks: true,
		Online: online, MinRuleBlocks: 2, Bulk: bulk, PromFilters: true, Styles: c05.DefaultStyles()}
}

func genPermCase(t *rapid.T) Case {
	c := Case{Layer: "perm"}
	c.Input = c05.GenInput(t, genOpts(false, false))
	c.Offline = rapid.Bool().Draw(t, "offline") || c.Input.ClosedProm()
	return c
}

var (
	workerVals   = []int{1, 2, 3, 7, 16, 64}
	maxProcsVals = []int{1, 2, 16}
)

func genSettings(t *rapid.T) []Setting {
	var all []Setting
	for _, w := range workerVals {
		for _, m := range maxProcsVals {
			all = append(all, Setting{w, m})
		}
	}
	if vstat.Tier() == "thorough" {
		return all
	}
	out := []Setting{{1, 1}}
	perm := rapid.Permutation(all[1:]).Draw(t, "settings")
	return append(out, perm[:5]...)
}

func genBinCase(layer string) func(t *rapid.T) Case {
	return func(t *rapid.T) Case {
		c := Case{Layer: layer}
		online := rapid.IntRange(0, 4).Draw(t, "online") < 2
		c.Input = c05.GenInput(t, genOpts(online, true))
		if !online {
			c.Offline = rapid.Bool().Draw(t, "offline") || c.Input.ClosedProm()
		}
		c.ArgStyle = rapid.SampledFrom([]string{"files", "files", "dirs", "dot"}).Draw(t, "argstyle")
		c.ShowDup = rapid.IntRange(0, 3).Draw(t, "showdup") == 0
		c.MinSev = rapid.SampledFrom([]string{"info", "info", "info", "", "bug"}).Draw(t, "minsev")
		c.Settings = genSettings(t)
		return c
	}
}

// ---------------------------------------------------------------------------
// properties

func TestPropPermutations(t *testing.T) {
	rec := vstat.New(t, prop)
	known := vstat.KnownClasses(prop)
	nperm := vstat.Scale(30, 200)
	rapid.Check(t, func(rt *rapid.T) {
		c := genPermCase(rt)
		for cls := range excluded() {
			rec.Count("inputs_generated_with_class_excluded:"+cls, 1)
		}
		// first pass without permutations: learn the size of the stream
		st, err := checkPerm(c)
		if errors.Is(err, errInfra) {
			t.Fatalf("inconclusive: %v", err)
		}
		if errors.Is(err, errSkip) {
			rec.Count("skipped_inputs", 1)
			rec.Case("perm:skipped", false, "", nil)
			return
		}
		n := st.reports
		if n >= 2 {
			rev := make([]int, n)
			idx := make([]int, n)
			for i := range rev {
				rev[i] = n - 1 - i
				idx[i] = i
			}
			c.Perms = append(c.Perms, arrivalOrder(rev, st.job))
			for i := 0; i < nperm-1; i++ {
				c.Perms = append(c.Perms, arrivalOrder(rapid.Permutation(idx).Draw(rt, fmt.Sprintf("perm%d", i)), st.job))
			}
			st, err = checkPerm(c)
			if errors.Is(err, errInfra) {
				t.Fatalf("inconclusive: %v", err)
			}
		}
		for i := 0; i < max(1, len(c.Perms)); i++ {
			rec.Case(st.class(), st.nontrivial() && len(c.Perms) > 0, st.sig, func() any {
				return map[string]any{"layer": "perm", "reports": st.reports, "files": st.files, "duplicate_groups": st.dupGroups,
					"reports_sharing_path_and_first_line": st.ties, "permutations": len(c.Perms), "config": c.Input.Config, "files_in": c.Input.Files}
			})
		}
		if err != nil {
			if id, ok := known[knownClass(c, err)]; ok {
				rec.KnownHit(id, c)
				return
			}
			rec.Fail(c, err)
			rt.Fatalf("%v\n--- config ---\n%s", err, c.Input.Config)
		}
	})
}

func driveBinary(t *testing.T, layer string, binEnv string, race bool) {
	bin := os.Getenv(binEnv)
	if bin == "" {
		t.Fatalf("%s is not set (run through /verif/check)", binEnv)
	}
	rec := vstat.New(t, prop)
	known := vstat.KnownClasses(prop)
	g := genBinCase(layer)
	rapid.Check(t, func(rt *rapid.T) {
		c := g(rt)
		for cls := range excluded() {
			rec.Count("inputs_generated_with_class_excluded:"+cls, 1)
		}
		st, err := checkBinary(c, bin, race)
		if errors.Is(err, errInfra) {
			t.Fatalf("inconclusive: %v", err)
		}
		if !st.completed && err == nil {
			rec.Count("discarded_inputs", 1)
		}
		if layer == "workers" && st.completed && !st.online && err == nil {
			// does layer 1's in-process mirror see what the binary sees? (evidence only)
			if mj, merr := mirrorJSON(c); merr == nil {
				rec.Count("mirror_crosschecked_inputs", 1)
				if mj != st.canonJSON {
					rec.Count("mirror_disagrees_with_binary", 1)
					t.Logf("in-process mirror and binary --json disagree, first difference at %s", firstDiff(mj, st.canonJSON))
				}
			}
		}
		for i := 0; i < max(1, st.runs); i++ {
			rec.Case(st.class(layer), st.nontrivial(), c.Input.Key(), func() any {
				return map[string]any{"layer": layer, "reports": st.reports, "files": st.files, "duplicate_groups": st.dupGroups,
					"reports_sharing_path_and_first_line": st.ties, "settings": c.Settings, "online": st.online, "offline_flag": c.Offline,
					"config": c.Input.Config, "files_in": c.Input.Files}
			})
		}
		if err != nil {
			if id, ok := known[knownClass(c, err)]; ok {
				rec.KnownHit(id, c)
				return
			}
			rec.Fail(c, err)
			rt.Fatalf("%v\n--- config ---\n%s", err, c.Input.Config)
		}
	})
}

func TestPropWorkers(t *testing.T) { driveBinary(t, "workers", "VERIF_PINT_BIN", false) }
func TestPropRace(t *testing.T)    { driveBinary(t, "race", "VERIF_PINT_RACE_BIN", true) }

// ---------------------------------------------------------------------------
// queueing layer: a healthy, fast server behind a low rateLimit and a short timeout.
// Queries wait in pint's own queue / rate limiter for longer than the timeout when
// --workers is high; waiting there must not turn into reported outages.

const caseIDPlaceholder = "{{CASE_ID}}"

const healthyBound = 300 * time.Millisecond

var errStalled = errors.New("server or machine not demonstrably fast")

func genQueueCase(t *rapid.T) Case {
	n := rapid.IntRange(48, 64).Draw(t, "rules")
	rate := rapid.IntRange(7, 10).Draw(t, "rateLimit")
	var b strings.Builder
	b.WriteString("groups:\n- name: g\n  rules:\n")
	for i := 0; i < n; i++ {
		fmt.Fprintf(&b, "  - record: job:metric_%02d:sum\n    expr: sum(metric_%02d) by(job)\n", i, i)
	}
	cfg := fmt.Sprintf("prometheus \"prom\" {\n  uri = \"%s/fast/%s\"\n  timeout = \"2s\"\n  rateLimit = %d\n  required = true\n}\nchecks {\n  enabled = [\"promql/series\"]\n}\n",
		c05.PromURIPlaceholder, caseIDPlaceholder, rate)
	return Case{Layer: "queue", Input: c05.Input{Files: []c05.FileSpec{{Name: "rules.yml", Content: b.String()}}, Config: cfg, Tags: []string{"queue"}},
		ArgStyle: "files", MinSev: "info", Settings: []Setting{{1, 16}, {8, 16}, {64, 16}}}
}

// checkQueue runs the case; a difference between the runs is a violation only when the
// fake answered every request within healthyBound and this process (a stand-in for the
// machine) never stalled for longer than that - otherwise errStalled (inconclusive).
func checkQueue(c Case, bin string) (st binStats, requests int, err error) {
	id := fmt.Sprintf("q%d", fastSeq.Add(1))
	stats := &serviceStats{}
	fastStats.Store(id, stats)
	defer fastStats.Delete(id)
	c.Input.Config = strings.ReplaceAll(c.Input.Config, caseIDPlaceholder, id)
	// heartbeat: the longest scheduling gap seen by a 10 ms ticker while the case runs
	stop := make(chan struct{})
	gapc := make(chan time.Duration, 1)
	go func() {
		var worst time.Duration
		last := time.Now()
		for {
			select {
			case <-stop:
				gapc <- worst
				return
			case <-time.After(10 * time.Millisecond):
				now := time.Now()
				if g := now.Sub(last) - 10*time.Millisecond; g > worst {
					worst = g
				}
				last = now
			}
		}
	}()
	st, err = checkBinary(c, bin, false)
	close(stop)
	gap := <-gapc
	stats.mu.Lock()
	requests, slowest := stats.requests, stats.slowest
	stats.mu.Unlock()
	if err != nil && !errors.Is(err, errInfra) && (slowest > healthyBound || gap > healthyBound) {
		return st, requests, fmt.Errorf("%w (slowest answer %v, longest stall of the harness %v): %v", errStalled, slowest, gap, err)
	}
	if err != nil && !errors.Is(err, errInfra) {
		err = fmt.Errorf("the fake Prometheus answered all %d requests within %v (slowest %v, harness never stalled longer than %v), rateLimit/timeout as configured, yet: %w", requests, healthyBound, slowest, gap, err)
	}
	return st, requests, err
}

func TestPropQueueing(t *testing.T) {
	bin := os.Getenv("VERIF_PINT_BIN")
	if bin == "" {
		t.Fatalf("VERIF_PINT_BIN is not set (run through /verif/check)")
	}
	rec := vstat.New(t, prop)
	rapid.Check(t, func(rt *rapid.T) {
		c := genQueueCase(rt)
		st, requests, err := checkQueue(c, bin)
		if errors.Is(err, errInfra) {
			t.Fatalf("inconclusive: %v", err)
		}
		if errors.Is(err, errStalled) {
			rec.Count("queueing_cases_inconclusive_server_or_machine_slow", 1)
			rec.Case("queue:inconclusive", false, "", nil)
			return
		}
		rec.Count("queueing_requests_served", int64(requests))
		for i := 0; i < max(1, st.runs); i++ {
			rec.Case("queue:completed", st.completed && requests > 0, c.Input.Key(), func() any {
				return map[string]any{"layer": "queue", "settings": c.Settings, "requests_served": requests, "config": c.Input.Config}
			})
		}
		if err != nil {
			rec.Fail(c, err)
			rt.Fatalf("%v\n--- config ---\n%s", err, c.Input.Config)
		}
	})
}

func TestReplay(t *testing.T) {
	p := vstat.ReplayPath()
	if p == "" {
		t.Skip("VERIF_REPLAY not set")
	}
	var c Case
	if err := vstat.LoadReplay(p, &c); err != nil {
		t.Fatal(err)
	}
	var err error
	switch c.Layer {
	case "perm":
		_, err = checkPerm(c)
	case "workers":
		// scheduling-dependent failures do not reproduce on every run: repeat
		for i := 0; i < vstat.Scale(20, 100) && err == nil; i++ {
			_, err = checkBinary(c, os.Getenv("VERIF_PINT_BIN"), false)
		}
	case "queue":
		for i := 0; i < 3 && err == nil; i++ {
			_, _, err = checkQueue(c, os.Getenv("VERIF_PINT_BIN"))
			if errors.Is(err, errStalled) {
				t.Skipf("inconclusive: %v", err)
			}
		}
	case "race":
		for i := 0; i < vstat.Scale(10, 50) && err == nil; i++ {
			_, err = checkBinary(c, os.Getenv("VERIF_PINT_RACE_BIN"), true)
		}
	default:
		t.Fatalf("unknown layer %q", c.Layer)
	}
	if errors.Is(err, errInfra) {
		t.Skipf("inconclusive: %v", err) // no PASS line: the driver reports exit 2
	}
	if err != nil && !errors.Is(err, errSkip) {
		t.Fatalf("%v", err)
	}
}
