// Package c05 holds the C05 property (exit status vs --fail-on) and, in this
// non-test file, the pieces C05 and C11 share: a generator of multi-file rule
// inputs + .pint.hcl configurations that trigger a mix of severities, and a
// runner for the real pint binary.
//
// Every random choice is a rapid draw.
package c05

import (
	"bytes"
	"context"
	"encoding/json"
	"errors"
	"fmt"
	"os"
	"os/exec"
	"path/filepath"
	"sort"
	"strings"
	"time"

	"pgregory.net/rapid"

	"github.com/cloudflare/pint/verifharness/gen"
)

// ---------------------------------------------------------------------------
// Model

type FileSpec struct {
	Name    string `json:"name"`
	Content string `json:"content,omitempty"`
	Symlink string `json:"symlink,omitempty"` // non-empty: Name is a symlink to this (relative) target
}

// Input is a self-contained lint input: files + configuration text.
// The config may contain the placeholder PromURIPlaceholder (online inputs).
type Input struct {
	Files  []FileSpec `json:"files"`
	Config string     `json:"config"`
	Tags   []string   `json:"tags,omitempty"`
}

const (
	PromURIPlaceholder    = "{{PROM_URI}}"
	PromURIAltPlaceholder = "{{PROM_URI_ALT}}" // the same server under its other loopback name
)

func (in Input) Key() string {
	var b strings.Builder
	for _, f := range in.Files {
		b.WriteString(f.Name + "\x00" + f.Content + "\x00" + f.Symlink + "\x01")
	}
	b.WriteString(in.Config)
	return b.String()
}

// ClosedProm reports whether the config names servers on closed ports (use --offline).
func (in Input) ClosedProm() bool { return strings.Contains(in.Config, "prometheus \"closed") }

func (in Input) Online() bool { return strings.Contains(in.Config, PromURIPlaceholder) }

// RealFiles lists the names of regular (non-symlink) files.
func (in Input) Names() []string {
	out := make([]string, 0, len(in.Files))
	for _, f := range in.Files {
		out = append(out, f.Name)
	}
	return out
}

type GenOpts struct {
	MinFiles, MaxFiles int
	MaxGroups          int
	MaxRules           int
	PoolSize           int  // size of the shared rule pool (rules copied across files)
	ParseErrors        bool // mix in files / rules with parse failures
	Symlinks           bool
	Online             bool // add a prometheus{} block pointing at PromURIPlaceholder
	MinRuleBlocks      int  // lower bound on the number of rule{} blocks in the config
	CommentPerKind     bool // all check blocks of one kind share their `comment` (see sevAttrs)
	Bulk               bool // a third of the inputs get one extra file with 50-200 rules in one group, or 10-50 small files
	LongLine           bool // a fifth of the inputs get a file with one physical line of 70-100 KiB
	PromFilters        bool // prometheus{} blocks with include/exclude path filters and tags (closed port unless Online)
	Styles             gen.StyleOpts
}

func DefaultStyles() gen.StyleOpts {
	// presentation variety without the position-defect classes that belong to C06
	return gen.StyleOpts{BlockScalars: true, MultiLine: true, FlowMaps: true, Comments: true, VarIndent: true, QuotedKeys: true}
}

// ---------------------------------------------------------------------------
// Rules

// expressions chosen to trigger built-in offline checks (alerts/comparison,
// alerts/template, promql/regexp, promql/fragile, promql/impossible ...) next
// to the quiet ones from gen.SimpleExprs.
var noisyExprs = []string{
	`foo`,
	`up`,
	`sum(foo) without (job) > 0`,
	`sum(foo) by (instance) > 0`,
	`foo{job=~"api"} > 0`,
	`foo{job=~".*"} == 1`,
	`errors_total{job="api"} / http_requests_total > 0.5`,
	`sum(errors_total) without (instance) / sum(http_requests_total) without (instance, job) > 0`,
	`rate(foo[5m]) > 0`,
	`foo{a="1"} and on (c) bar{b="2"}`,
	`absent(foo{job="node"}) or absent(bar)`,
	`count(foo) by (job) > 0 or vector(1) < 0`,
	`sum(rate(http_requests_total[30s])) by (job) > 10`,
	`avg_over_time(foo[10m]) < 1`,
	// smelly regexp selectors (promql/regexp, governed by check "promql/regexp" { smelly })
	`foo{job=~"foo.+"} > 0`,
	`rate(errors_total{instance=~"node.+"}[5m]) > 0`,
	`sum(bar{a=~".+x"}) by (job) > 1`,
	// users of recording rules of the vocabulary (rule/dependency when those are removed)
	`foo:sum > 10`,
	`bar:count == 0`,
	`instance:up:sum < 1`,
	`job:foo:rate5m / baz_agg > 1`,
	`colo:job:errors > 0`,
}

var brokenExprs = []string{
	`sum(foo) by (job`,
	`foo{`,
	`rate(foo) > 0`,
	`foo bar`,
	`sum by (job) (foo) >`,
}

func genRule(t *rapid.T, label string) gen.RuleSpec {
	r := gen.GenRule(t, label)
	if rapid.IntRange(0, 2).Draw(t, label+".noisy") == 0 {
		r.Expr = rapid.SampledFrom(noisyExprs).Draw(t, label+".nexpr")
	}
	if rapid.IntRange(0, 2).Draw(t, label+".teamlabel") == 0 {
		// a label of its own that depends on the rule: {{ $alert }} checks compare against it
		has := false
		for _, kv := range r.Labels {
			if kv[0] == "team" {
				has = true
			}
		}
		if !has {
			r.Labels = append(r.Labels, [2]string{"team", r.Name})
		}
	}
	if r.Alert && rapid.IntRange(0, 2).Draw(t, label+".extralabel") == 0 {
		// labels that config blocks below look at
		k := rapid.SampledFrom([]string{"severity", "team", "env"}).Draw(t, label+".xk")
		v := rapid.SampledFrom([]string{"critical", "page", "warning", "prod", "x y", "https://example.com/x"}).Draw(t, label+".xv")
		found := false
		for _, kv := range r.Labels {
			if kv[0] == k {
				found = true
			}
		}
		if !found {
			r.Labels = append(r.Labels, [2]string{k, v})
		}
	}
	return r
}

// ---------------------------------------------------------------------------
// Files

var fileNames = []string{"a.yml", "b.yml", "c.yaml", "rules/d.yml", "rules/e.yml", "alerts/f.yml", "alerts/sub/g.yml", "h.rules", "rules/i.yaml", "z.yml"}

// text-level broken files (whole-file failures)
var brokenFiles = []string{
	"groups:\n- name: x\n  rules:\n  - alert: [\n",
	"groups:\n- name: x\n  rules:\n\t- alert: Foo\n\t  expr: up\n",
	"groups:\n- name: x\n  rules:\n  - alert: Foo\n    expr: up == 0\n  bogus: true\n",
	"groups:\n- name: x\n  rules:\n  - alert: Foo\n    expr: up == 0\n- name: x\n  rules:\n  - alert: Bar\n    expr: up == 0\n",
	"groups:\n- rules:\n  - alert: Foo\n    expr: up == 0\n",
	"- alert: Foo\n  expr: up == 0\n",
	"groups: {}\n",
	"}}}\n",
}

// brokenRule returns a mapping node for a rule pint must reject at parse time.
func brokenRule(t *rapid.T, label string) *gen.Node {
	switch rapid.IntRange(0, 6).Draw(t, label+".kind") {
	case 0: // both alert and record
		return gen.Map(gen.KV("alert", gen.P("Both")), gen.KV("record", gen.P("both:rule")), gen.KV("expr", gen.P("up == 0")))
	case 1: // missing expr
		return gen.Map(gen.KV("alert", gen.P("NoExpr")), gen.KV("for", gen.P("5m")))
	case 2: // invalid duration
		return gen.Map(gen.KV("alert", gen.P("BadFor")), gen.KV("expr", gen.P("up == 0")), gen.KV("for", gen.P("abc")))
	case 3: // unknown key
		return gen.Map(gen.KV("alert", gen.P("Unknown")), gen.KV("expr", gen.P("up == 0")), gen.KV("bogus", gen.P("1")))
	case 4: // duplicated key
		return gen.Map(gen.KV("record", gen.P("dup:key")), gen.KV("expr", gen.P("foo")), gen.KV("expr", gen.P("bar")))
	case 5: // annotations on a recording rule
		return gen.Map(gen.KV("record", gen.P("rec:ann")), gen.KV("expr", gen.P("foo")), gen.KV("annotations", gen.Map(gen.KV("summary", gen.P("x")))))
	default: // labels is not a mapping
		return gen.Map(gen.KV("alert", gen.P("BadLabels")), gen.KV("expr", gen.P("up == 0")), gen.KV("labels", gen.P("oops")))
	}
}

var groupLabelKeys = []string{"region", "cluster", "dc", "tier", "site", "zone", "owner", "env"}

// genGroupLabels draws 0-8 group-level labels (pint merges them into every rule's
// label set; 3, 5, 6 and 7 leave spare capacity in the parsed slice).
func genGroupLabels(t *rapid.T, lbl string) [][2]string {
	n := rapid.SampledFrom([]int{0, 0, 0, 1, 2, 3, 3, 4, 5, 5, 6, 7, 8}).Draw(t, lbl+".nglabels")
	var out [][2]string
	for i := 0; i < n; i++ {
		out = append(out, [2]string{groupLabelKeys[i], rapid.SampledFrom([]string{"eu", "c1", "prod", "x"}).Draw(t, fmt.Sprintf("%s.glv%d", lbl, i))})
	}
	return out
}

// bulkFile renders one large group (n rules, k group-level labels) with few draws:
// rule i is a function of i, and every rule carries `team: <its own name>`, which the
// templated label/reject checks of GenConfig compare against {{ $alert }}.
func bulkFile(n, k, variant int) string {
	var b strings.Builder
	b.WriteString("groups:\n- name: bulk\n")
	if k > 0 {
		b.WriteString("  labels:\n")
		for i := 0; i < k; i++ {
			fmt.Fprintf(&b, "    %s: v%d\n", groupLabelKeys[i], i)
		}
	}
	b.WriteString("  rules:\n")
	exprs := []string{"up == 0", "sum(foo) by (job) > 0", "foo", "rate(errors_total[5m]) > 1", `foo{job=~"api.+"} > 0`}
	for i := 0; i < n; i++ {
		name := fmt.Sprintf("Bulk%03d", i)
		fmt.Fprintf(&b, "  - alert: %s\n    expr: %s\n", name, exprs[(i+variant)%len(exprs)])
		if (i+variant)%3 == 0 {
			b.WriteString("    for: 5m\n")
		}
		fmt.Fprintf(&b, "    labels:\n      team: %s\n", name)
		if (i+variant)%4 == 0 {
			b.WriteString("      severity: critical\n")
		}
		if (i+variant)%5 != 0 {
			b.WriteString("    annotations:\n      summary: \"{{ $labels.job }} is down\"\n")
		}
	}
	return b.String()
}

// spreadFile is file i of a bulk input spread over many files: recording rules
// `shared:sum_j` repeat in every file, `file<i>:sum_j` are its own, plus a few alerts.
func spreadFile(i, n, k, variant int) string {
	var b strings.Builder
	b.WriteString("groups:\n- name: g\n")
	if k > 0 {
		b.WriteString("  labels:\n")
		for x := 0; x < k; x++ {
			fmt.Fprintf(&b, "    %s: v%d\n", groupLabelKeys[x], x)
		}
	}
	b.WriteString("  rules:\n")
	for j := 0; j < n; j++ {
		switch (j + variant) % 3 {
		case 0:
			fmt.Fprintf(&b, "  - record: shared:sum_%d\n    expr: sum(foo_%d) without(instance)\n", j, j)
		case 1:
			fmt.Fprintf(&b, "  - record: file%d:sum_%d\n    expr: sum(bar_%d) without(instance)\n", i, j, j)
		default:
			fmt.Fprintf(&b, "  - alert: Spread%03d_%d\n    expr: shared:sum_%d > %d\n    labels:\n      team: Spread%03d_%d\n", i, j, j, j, i, j)
		}
	}
	return b.String()
}

// longLineFile is a small valid rule file with ONE physical line of about size bytes:
// an expr matching thousands of hosts through a regexp alternation (0), a comment (1)
// or an annotation (2).  Its alert has no condition, so alerts/comparison always
// reports a Warning for this file, next to whatever the config adds.
func longLineFile(size, variant int) string {
	var long strings.Builder
	switch variant {
	case 0:
		for i := 0; long.Len() < size; i++ {
			if i > 0 {
				long.WriteByte('|')
			}
			fmt.Fprintf(&long, "host%05d", i)
		}
		return "groups:\n- name: long\n  rules:\n  - alert: LongLine\n    expr: up{instance=~\"" + long.String() + "\"}\n    for: 1m\n    labels:\n      severity: page\n"
	case 1:
		long.WriteString(strings.Repeat("long comment ", size/13))
		return "groups:\n- name: long\n  rules:\n  # " + long.String() + "\n  - alert: LongLine\n    expr: up\n    for: 1m\n    labels:\n      severity: page\n"
	default:
		long.WriteString(strings.Repeat("very long text ", size/15))
		return "groups:\n- name: long\n  rules:\n  - alert: LongLine\n    expr: up\n    annotations:\n      summary: \"" + long.String() + "\"\n    labels:\n      severity: page\n"
	}
}

// renderDoc renders groups (styled) plus optional extra raw rule nodes that
// are appended to the last group.
func renderDoc(s *gen.Styler, groups []gen.GroupSpec, extra []*gen.Node) string {
	seq := &gen.Node{Kind: gen.SeqKind}
	for i, g := range groups {
		gn := s.Group(g)
		if i == len(groups)-1 && len(extra) > 0 {
			for _, p := range gn.Pairs {
				if p.Key.Lines[0] == "rules" {
					for _, e := range extra {
						p.Val.Items = append(p.Val.Items, e)
						p.Val.ItemBefore = append(p.Val.ItemBefore, nil)
					}
				}
			}
		}
		seq.Items = append(seq.Items, gn)
		seq.ItemBefore = append(seq.ItemBefore, nil)
	}
	root := &gen.Node{Kind: gen.MapKind, Pairs: []gen.Pair{{Key: gen.P("groups"), Val: seq}}}
	return gen.Emit(root)
}

// GenInput draws files + config.
func GenInput(t *rapid.T, o GenOpts) Input {
	var in Input
	tag := map[string]bool{}

	pool := make([]gen.RuleSpec, 0, o.PoolSize)
	for i := 0; i < o.PoolSize; i++ {
		pool = append(pool, genRule(t, fmt.Sprintf("pool%d", i)))
	}

	// parse failures (Fatal) are switched on per case so that a good share of the
	// cases has no Fatal problem at all
	if o.ParseErrors && rapid.IntRange(0, 4).Draw(t, "parseErrors") < 3 {
		o.ParseErrors = false
	}
	nfiles := rapid.IntRange(o.MinFiles, o.MaxFiles).Draw(t, "nfiles")
	names := rapid.Permutation(fileNames).Draw(t, "names")[:nfiles]
	sort.Strings(names)
	groupNames := []string{"g1", "g2", "alerts", "recording", "node"}
	for fi, name := range names {
		lbl := fmt.Sprintf("f%d", fi)
		if o.ParseErrors && rapid.IntRange(0, 11).Draw(t, lbl+".brokenfile") == 0 {
			in.Files = append(in.Files, FileSpec{Name: name, Content: rapid.SampledFrom(brokenFiles).Draw(t, lbl+".bf")})
			tag["broken-file"] = true
			continue
		}
		if o.Symlinks && fi > 0 && in.Files[0].Symlink == "" && rapid.IntRange(0, 3).Draw(t, lbl+".symlink") == 0 {
			// relative target from the link's directory
			rel, err := filepath.Rel(filepath.Dir(name), in.Files[0].Name)
			if err == nil {
				in.Files = append(in.Files, FileSpec{Name: name, Symlink: rel})
				tag["symlink"] = true
				continue
			}
		}
		ng := rapid.IntRange(1, o.MaxGroups).Draw(t, lbl+".ngroups")
		var groups []gen.GroupSpec
		gnames := rapid.Permutation(groupNames).Draw(t, lbl+".gnames")
		for gi := 0; gi < ng; gi++ {
			g := gen.GroupSpec{Name: gnames[gi]}
			if rapid.IntRange(0, 4).Draw(t, fmt.Sprintf("%s.g%d.int", lbl, gi)) == 0 {
				g.Interval = rapid.SampledFrom([]string{"1m", "30s", "5m"}).Draw(t, lbl+".interval")
			}
			g.Labels = genGroupLabels(t, fmt.Sprintf("%s.g%d", lbl, gi))
			nr := rapid.IntRange(1, o.MaxRules).Draw(t, fmt.Sprintf("%s.g%d.nrules", lbl, gi))
			for ri := 0; ri < nr; ri++ {
				rl := fmt.Sprintf("%s.g%d.r%d", lbl, gi, ri)
				var r gen.RuleSpec
				if len(pool) > 0 && rapid.IntRange(0, 2).Draw(t, rl+".frompool") > 0 {
					r = pool[rapid.IntRange(0, len(pool)-1).Draw(t, rl+".pool")]
					tag["pooled"] = true
				} else {
					r = genRule(t, rl)
				}
				if o.ParseErrors && rapid.IntRange(0, 14).Draw(t, rl+".brokenexpr") == 0 {
					r.Expr = rapid.SampledFrom(brokenExprs).Draw(t, rl+".bexpr")
					tag["broken-expr"] = true
				}
				g.Rules = append(g.Rules, r)
			}
			groups = append(groups, g)
		}
		var extra []*gen.Node
		if o.ParseErrors && rapid.IntRange(0, 7).Draw(t, lbl+".brokenrule") == 0 {
			extra = append(extra, brokenRule(t, lbl+".br"))
			tag["broken-rule"] = true
		}
		s := gen.NewStyler(t, o.Styles)
		in.Files = append(in.Files, FileSpec{Name: name, Content: renderDoc(s, groups, extra)})
	}

	if o.Bulk && rapid.IntRange(0, 2).Draw(t, "bulk") == 0 {
		n := rapid.IntRange(40, 160).Draw(t, "bulk.n")
		if o.Online {
			n = 30 + n/4 // every rule costs several queries per server
		}
		k := rapid.SampledFrom([]int{0, 3, 3, 5, 6, 7, 4}).Draw(t, "bulk.k")
		v := rapid.IntRange(0, 11).Draw(t, "bulk.variant")
		if rapid.Bool().Draw(t, "bulk.spread") {
			// the same volume spread over 10-50 files whose recording rules repeat across
			// files (rule/duplicate runs per entry and asks every server about every path)
			nf := rapid.IntRange(10, 40).Draw(t, "bulk.nfiles")
			for i := 0; i < nf; i++ {
				name := fmt.Sprintf("bulk/file_%03d.yml", i)
				if i%10 == 9 {
					name = fmt.Sprintf("bulk/skip_%03d.yml", i)
				}
				in.Files = append(in.Files, FileSpec{Name: name, Content: spreadFile(i, max(2, n/nf), k, v)})
			}
			tag["bulk-spread"] = true
		} else {
			in.Files = append(in.Files, FileSpec{Name: "bulk.yml", Content: bulkFile(n, k, v)})
			tag["bulk"] = true
		}
	}

	if o.LongLine && rapid.IntRange(0, 4).Draw(t, "longline") == 0 {
		size := rapid.IntRange(70, 100).Draw(t, "longline.kib") * 1024
		variant := rapid.IntRange(0, 2).Draw(t, "longline.variant")
		in.Files = append(in.Files, FileSpec{Name: "long.yml", Content: longLineFile(size, variant)})
		tag["long-line"] = true
	}

	var ctags []string
	in.Config, ctags = GenConfig(t, o.Online, o.MinRuleBlocks, o.CommentPerKind, o.PromFilters)
	for _, c := range ctags {
		tag[c] = true
	}
	// a check that only applies to the symlink's path: the same rules then carry a problem
	// (often the most severe one) under the link name that the real file does not have
	for _, f := range in.Files {
		if f.Symlink != "" && rapid.IntRange(0, 2).Draw(t, "symlinkRule") > 0 {
			sev := rapid.SampledFrom([]string{"info", "warning", "bug", "bug", "fatal"}).Draw(t, "symlinkRule.sev")
			in.Config += "rule {\n  match {\n    path = " + hclStr(strings.ReplaceAll(f.Name, ".", "[.]")) + "\n  }\n  label \"linked\" {\n    required = true\n    severity = " + hclStr(sev) + "\n  }\n}\n"
			tag["symlink-only-rule"] = true
		}
	}
	for k := range tag {
		in.Tags = append(in.Tags, k)
	}
	sort.Strings(in.Tags)
	return in
}

// ---------------------------------------------------------------------------
// Config

// drawn with weights: fatal less often, so that runs below the threshold stay common
var severityDraw = []string{"", "", "info", "info", "info", "warning", "warning", "warning", "bug", "bug", "fatal"}

func hclStr(s string) string {
	s = strings.ReplaceAll(s, `\`, `\\`)
	s = strings.ReplaceAll(s, `"`, `\"`)
	return `"` + s + `"`
}

func hclList(l []string) string {
	q := make([]string, len(l))
	for i, s := range l {
		q[i] = hclStr(s)
	}
	return "[" + strings.Join(q, ", ") + "]"
}

type hclBlock struct {
	head  string
	attrs []string
}

func (b hclBlock) render(indent string) string {
	var sb strings.Builder
	sb.WriteString(indent + b.head + " {\n")
	for _, a := range b.attrs {
		sb.WriteString(indent + "  " + a + "\n")
	}
	sb.WriteString(indent + "}\n")
	return sb.String()
}

// comments == nil: every block draws its own comment; otherwise the comment is a
// function of the block kind (all blocks of one kind share it), which rules out two
// check instances reporting the same problem with different Details.
func sevAttrs(t *rapid.T, lbl string, b *hclBlock, kind string, comments map[string]string) string {
	required := kind == "report"
	pool := severityDraw
	if required {
		pool = severityDraw[2:]
	}
	sev := rapid.SampledFrom(pool).Draw(t, lbl+".sev")
	if sev != "" {
		b.attrs = append(b.attrs, "severity = "+hclStr(sev))
	}
	c := rapid.SampledFrom([]string{"", "", "see the wiki", "ask the owners"}).Draw(t, lbl+".comment")
	if required && c == "" {
		c = "reported by config"
	}
	if comments != nil {
		if prev, ok := comments[kind]; ok {
			c = prev
		} else {
			comments[kind] = c
		}
	}
	if c != "" {
		b.attrs = append(b.attrs, "comment = "+hclStr(c))
	}
	return sev
}

func genCheckBlock(t *rapid.T, lbl string, single map[string]bool, comments map[string]string) (hclBlock, string) {
	kinds := []string{"annotation", "label", "for", "keep_firing_for", "name", "aggregate", "reject", "report", "annotation", "label"}
	kind := rapid.SampledFrom(kinds).Draw(t, lbl+".kind")
	if single[kind] {
		kind = "label"
	}
	var b hclBlock
	switch kind {
	case "annotation":
		key := rapid.SampledFrom([]string{"summary", "description", "dashboard", "runbook_url", "link", "summary|description"}).Draw(t, lbl+".key")
		b.head = "annotation " + hclStr(key)
		val := rapid.SampledFrom([]string{"", "", "https://.+", ".+ is down", "[a-z ]+"}).Draw(t, lbl+".val")
		if val != "" {
			b.attrs = append(b.attrs, "value = "+hclStr(val))
		}
		if val == "" || rapid.Bool().Draw(t, lbl+".req") {
			b.attrs = append(b.attrs, "required = true")
		}
	case "label":
		key := rapid.SampledFrom([]string{"team", "severity", "env", "job", "a"}).Draw(t, lbl+".key")
		b.head = "label " + hclStr(key)
		val := rapid.SampledFrom([]string{"", "", "prod|dev", "critical|warning", "[a-z]+", "{{ $alert }}"}).Draw(t, lbl+".val")
		if val == "{{ $alert }}" {
			key = "team"
			b.head = "label " + hclStr(key)
		}
		if val != "" {
			b.attrs = append(b.attrs, "value = "+hclStr(val))
		}
		if val == "" || rapid.Bool().Draw(t, lbl+".req") {
			b.attrs = append(b.attrs, "required = true")
		}
	case "for", "keep_firing_for":
		single[kind] = true
		b.head = kind
		mn := rapid.SampledFrom([]string{"", "1m", "5m", "10m"}).Draw(t, lbl+".min")
		mx := rapid.SampledFrom([]string{"", "30m", "5m", "1h"}).Draw(t, lbl+".max")
		if mn == "" && mx == "" {
			mn = "5m"
		}
		if mn != "" {
			b.attrs = append(b.attrs, "min = "+hclStr(mn))
		}
		if mx != "" {
			b.attrs = append(b.attrs, "max = "+hclStr(mx))
		}
	case "name":
		b.head = "name " + hclStr(rapid.SampledFrom([]string{"rec:.+", "[A-Z][a-zA-Z]+", ".+:.+", "job:.+", "[a-z_:]+"}).Draw(t, lbl+".pat"))
	case "aggregate":
		b.head = "aggregate " + hclStr(rapid.SampledFrom([]string{".+", "job:.+", ".+:.+", "[A-Z].+"}).Draw(t, lbl+".pat"))
		switch rapid.IntRange(0, 2).Draw(t, lbl+".ks") {
		case 0:
			b.attrs = append(b.attrs, "keep = "+hclList([]string{"job"}))
		case 1:
			b.attrs = append(b.attrs, "keep = "+hclList([]string{"instance", "job"}))
		default:
			b.attrs = append(b.attrs, "strip = "+hclList([]string{"instance"}))
		}
	case "reject":
		b.head = "reject " + hclStr(rapid.SampledFrom([]string{"https?://.+", ".* +.*", "page|critical", "a|b|x|1|2", "summary|.* is down", "{{ $alert }}"}).Draw(t, lbl+".pat"))
		any := false
		for _, f := range []string{"label_keys", "label_values", "annotation_keys", "annotation_values"} {
			if rapid.Bool().Draw(t, lbl+"."+f) {
				b.attrs = append(b.attrs, f+" = true")
				any = true
			}
		}
		if !any {
			b.attrs = append(b.attrs, "label_values = true")
		}
	case "report":
		single[kind] = true
		b.head = "report"
	}
	sev := sevAttrs(t, lbl, &b, kind, comments)
	return b, kind + "=" + sev
}

func genMatch(t *rapid.T, lbl, word string) string {
	b := hclBlock{head: word}
	switch rapid.IntRange(0, 5).Draw(t, lbl+".m") {
	case 0:
		b.attrs = append(b.attrs, `kind = "alerting"`)
	case 1:
		b.attrs = append(b.attrs, `kind = "recording"`)
	case 2:
		b.attrs = append(b.attrs, "name = "+hclStr(rapid.SampledFrom([]string{".*Down", "job:.*", "Foo.*", ".*:.*"}).Draw(t, lbl+".name")))
	case 3:
		b.attrs = append(b.attrs, "path = "+hclStr(rapid.SampledFrom([]string{"rules/.*", "a.yml", ".*[.]yml", "alerts/.*"}).Draw(t, lbl+".path")))
	case 4:
		return "  " + word + " {\n    label \"severity\" {\n      value = \"critical|page\"\n    }\n  }\n"
	default:
		b.attrs = append(b.attrs, "for = "+hclStr(rapid.SampledFrom([]string{"> 0", ">= 5m", "< 10m"}).Draw(t, lbl+".for")))
	}
	return b.render("  ")
}

// GenConfig draws a .pint.hcl over rule{} blocks with custom severities.
func GenConfig(t *rapid.T, online bool, minBlocks int, commentPerKind, promFilters bool) (string, []string) {
	var sb strings.Builder
	var comments map[string]string
	if commentPerKind {
		comments = map[string]string{}
	}
	var tags []string
	if rapid.IntRange(0, 5).Draw(t, "cfg.relaxed") == 0 {
		sb.WriteString("parser {\n  relaxed = [\".*\"]\n}\n")
		tags = append(tags, "relaxed")
	}
	// include/exclude path filters and tags of a prometheus{} block
	pathFilters := func(lbl string) string {
		if !promFilters {
			return ""
		}
		var f strings.Builder
		inc := rapid.SampledFrom([]string{"", "bulk/.*", "rules/.*|bulk/.*", ".*[.]ya?ml", "[a-c][.].*|bulk/.*|alerts/.*"}).Draw(t, lbl+".include")
		exc := rapid.SampledFrom([]string{"", "bulk/skip_.*", "alerts/.*", ".*/file_0[0-4].*", "a.yml|rules/e.yml"}).Draw(t, lbl+".exclude")
		if inc == "" && exc == "" {
			exc = "bulk/skip_.*"
		}
		if inc != "" {
			f.WriteString("  include = " + hclList([]string{inc}) + "\n")
		}
		if exc != "" {
			f.WriteString("  exclude = " + hclList([]string{exc}) + "\n")
		}
		if rapid.Bool().Draw(t, lbl+".tags") {
			f.WriteString("  tags = " + hclList([]string{rapid.SampledFrom([]string{"prod", "dev"}).Draw(t, lbl+".tag")}) + "\n")
		}
		return f.String()
	}
	if !online && promFilters && rapid.IntRange(0, 3).Draw(t, "cfg.closedProm") > 0 {
		// servers nobody listens on: meant for --offline runs, where rule/duplicate still
		// asks every server whether it is enabled for every path
		np := rapid.IntRange(1, 3).Draw(t, "cfg.nclosed")
		for i := 0; i < np; i++ {
			fmt.Fprintf(&sb, "prometheus \"closed%d\" {\n  uri = \"http://127.0.0.1:%d\"\n  required = false\n%s}\n", i, i+1, pathFilters(fmt.Sprintf("cfg.closed%d", i)))
		}
		tags = append(tags, "prom-closed")
	}
	if online {
		if rapid.IntRange(0, 3).Draw(t, "cfg.partial") > 0 {
			// main server partially unavailable: the harness' fake answers 504 for the queries whose
			// expression hashes into the drawn 4-bit mask, the failover URI answers everything
			mask := rapid.IntRange(1, 14).Draw(t, "cfg.partialMask")
			fmt.Fprintf(&sb, "prometheus \"prom\" {\n  uri = \"%s/partial/%d\"\n  failover = [\"%s\"]\n  timeout = \"30s\"\n  rateLimit = 100000\n", PromURIPlaceholder, mask, PromURIAltPlaceholder)
			tags = append(tags, "partial-outage")
		} else {
			sb.WriteString("prometheus \"prom\" {\n  uri = \"" + PromURIPlaceholder + "\"\n  timeout = \"30s\"\n  rateLimit = 100000\n")
		}
		if rapid.IntRange(0, 3).Draw(t, "cfg.required") == 0 {
			sb.WriteString("  required = true\n")
		}
		if rapid.Bool().Draw(t, "cfg.promfilt") {
			sb.WriteString(pathFilters("cfg.prom"))
		}
		sb.WriteString("}\n")
		tags = append(tags, "online")
		if rapid.IntRange(0, 2).Draw(t, "cfg.prom2") == 0 {
			// a second server: every online check runs once per server on each rule
			sb.WriteString("prometheus \"prom2\" {\n  uri = \"" + PromURIAltPlaceholder + "\"\n  timeout = \"30s\"\n  rateLimit = 100000\n" + pathFilters("cfg.prom2") + "}\n")
			tags = append(tags, "online2")
		}
	}
	// check settings blocks: decoded once and shared by every worker
	switch rapid.IntRange(0, 5).Draw(t, "cfg.regexpSettings") {
	case 0, 1:
		sb.WriteString("check \"promql/regexp\" {\n  smelly = false\n}\n")
		tags = append(tags, "regexp-smelly=false")
	case 2:
		sb.WriteString("check \"promql/regexp\" {\n  smelly = true\n}\n")
		tags = append(tags, "regexp-smelly=true")
	case 3:
		sb.WriteString("check \"promql/regexp\" {}\n")
		tags = append(tags, "regexp-settings")
	}
	if rapid.IntRange(0, 2).Draw(t, "cfg.seriesSettings") == 0 {
		sb.WriteString("check \"promql/series\" {\n  lookbackRange = \"5d\"\n  lookbackStep = \"1m\"\n  ignoreMetrics = [\".*_total\", \"ba.\"]\n}\n")
		tags = append(tags, "series-settings")
	}
	nb := rapid.IntRange(min(minBlocks, 4), 4).Draw(t, "cfg.nrules")
	for i := 0; i < nb; i++ {
		lbl := fmt.Sprintf("cfg.r%d", i)
		sb.WriteString("rule {\n")
		switch rapid.IntRange(0, 3).Draw(t, lbl+".hasmatch") {
		case 0:
		case 1, 2:
			sb.WriteString(genMatch(t, lbl+".match", "match"))
		default:
			sb.WriteString(genMatch(t, lbl+".match", "match"))
			sb.WriteString(genMatch(t, lbl+".ignore", "ignore"))
		}
		single := map[string]bool{}
		nc := rapid.IntRange(1, 3).Draw(t, lbl+".nchecks")
		for j := 0; j < nc; j++ {
			b, tg := genCheckBlock(t, fmt.Sprintf("%s.c%d", lbl, j), single, comments)
			sb.WriteString(b.render("  "))
			tags = append(tags, tg)
		}
		sb.WriteString("}\n")
	}
	if rapid.IntRange(0, 2).Draw(t, "cfg.ladder") > 0 {
		txt, tg := genLadder(t, comments)
		if rapid.Bool().Draw(t, "cfg.ladderFirst") {
			return txt + sb.String(), append(tags, tg...)
		}
		sb.WriteString(txt)
		tags = append(tags, tg...)
	}
	return sb.String(), tags
}

// genLadder emits 2-3 rule{} blocks that configure the SAME check (same kind, key,
// options and comment, hence the same problem text) at DIFFERENT severities for
// different sets of rules (split by label value / kind / name / path, or
// overlapping), so that one issue text is reported at several severities across
// rules and files, in either order.
func genLadder(t *rapid.T, comments map[string]string) (string, []string) {
	type tmpl struct {
		kind  string
		head  string
		attrs []string
		both  bool // applies to recording rules too
	}
	tmpls := []tmpl{
		{"annotation", `annotation "runbook_url"`, []string{"required = true"}, false},
		{"annotation", `annotation "dashboard"`, []string{"required = true"}, false},
		{"annotation", `annotation "summary"`, []string{`value = "[A-Z].+ is down"`, "required = true"}, false},
		{"label", `label "team"`, []string{"required = true"}, true},
		{"label", `label "team"`, []string{`value = "{{ $alert }}"`, "required = true"}, false},
		{"label", `label "severity"`, []string{`value = "critical|warning"`, "required = true"}, true},
		{"for", "for", []string{`min = "10m"`}, false},
		{"keep_firing_for", "keep_firing_for", []string{`max = "1m"`}, false},
		{"name", `name "ok:.+"`, nil, true},
		{"aggregate", `aggregate ".+"`, []string{`keep = ["cluster"]`}, true},
		{"reject", `reject ".*"`, []string{"label_keys = true"}, true},
	}
	tp := rapid.SampledFrom(tmpls).Draw(t, "ladder.tmpl")
	comment := rapid.SampledFrom([]string{"", "see the wiki"}).Draw(t, "ladder.comment")
	if comments != nil {
		if prev, ok := comments[tp.kind]; ok {
			comment = prev
		} else {
			comments[tp.kind] = comment
		}
	}
	sevs := rapid.Permutation([]string{"", "info", "warning", "bug", "fatal"}).Draw(t, "ladder.sevs")
	n := rapid.IntRange(2, 3).Draw(t, "ladder.n")
	splits := []string{"label", "name", "path", "overlap"}
	if tp.both {
		splits = append(splits, "kind")
	}
	split := rapid.SampledFrom(splits).Draw(t, "ladder.split")
	// selectors[i] is the match/ignore text of rung i; rung 0 is the catch-all remainder
	var sel [][]string
	switch split {
	case "label":
		sel = [][]string{
			{"  ignore {\n    label \"severity\" {\n      value = \"critical|page|warning\"\n    }\n  }\n"},
			{"  match {\n    label \"severity\" {\n      value = \"critical|page\"\n    }\n  }\n"},
			{"  match {\n    label \"severity\" {\n      value = \"warning\"\n    }\n  }\n"},
		}
	case "name":
		sel = [][]string{
			{"  ignore {\n    name = \".*Down|Foo.*|.*:.*\"\n  }\n"},
			{"  match {\n    name = \".*Down|Foo.*\"\n  }\n"},
			{"  match {\n    name = \".*:.*\"\n  }\n"},
		}
	case "path":
		sel = [][]string{
			{"  ignore {\n    path = \"rules/.*|alerts/.*|a.yml|b.yml\"\n  }\n"},
			{"  match {\n    path = \"rules/.*|a.yml\"\n  }\n"},
			{"  match {\n    path = \"alerts/.*|b.yml\"\n  }\n"},
		}
	case "kind":
		sel = [][]string{
			{"  match {\n    kind = \"alerting\"\n  }\n"},
			{"  match {\n    kind = \"recording\"\n  }\n"},
			{"  match {\n    kind = \"recording\"\n    name = \"job:.*\"\n  }\n"},
		}
	default: // overlapping: the first block that matches a rule wins
		sel = [][]string{
			{""},
			{"  match {\n    name = \".*[a-m]\"\n  }\n"},
			{"  match {\n    kind = \"alerting\"\n  }\n"},
		}
	}
	order := rapid.Permutation([]int{0, 1, 2}[:n]).Draw(t, "ladder.order")
	var sb strings.Builder
	for _, i := range order {
		sb.WriteString("rule {\n" + sel[i][0])
		b := hclBlock{head: tp.head, attrs: append([]string{}, tp.attrs...)}
		if sevs[i] != "" {
			b.attrs = append(b.attrs, "severity = "+hclStr(sevs[i]))
		}
		if comment != "" {
			b.attrs = append(b.attrs, "comment = "+hclStr(comment))
		}
		sb.WriteString(b.render("  "))
		sb.WriteString("}\n")
	}
	return sb.String(), []string{"ladder:" + tp.kind + ":" + split}
}

// ---------------------------------------------------------------------------
// Materialising and running

var scratchBase = func() string {
	for _, d := range []string{"/dev/shm", os.TempDir()} {
		if st, err := os.Stat(d); err == nil && st.IsDir() {
			return d
		}
	}
	return os.TempDir()
}()

// MkScratch creates a scratch directory (the caller removes it).
func MkScratch(prefix string) (string, error) {
	return os.MkdirTemp(scratchBase, prefix)
}

// WriteFiles writes files (and symlinks) below dir.
func WriteFiles(dir string, files []FileSpec) error {
	for _, f := range files {
		p := filepath.Join(dir, f.Name)
		if err := os.MkdirAll(filepath.Dir(p), 0o755); err != nil {
			return err
		}
		if f.Symlink != "" {
			if err := os.Symlink(f.Symlink, p); err != nil {
				return err
			}
			continue
		}
		if err := os.WriteFile(p, []byte(f.Content), 0o644); err != nil {
			return err
		}
	}
	return nil
}

// Materialize writes the input below dir with the config as dir/.pint.hcl.
func Materialize(dir string, in Input, promURI string) error {
	if err := WriteFiles(dir, in.Files); err != nil {
		return err
	}
	return os.WriteFile(filepath.Join(dir, ".pint.hcl"), []byte(ConfigText(in, promURI)), 0o644)
}

func ConfigText(in Input, promURI string) string {
	s := strings.ReplaceAll(in.Config, PromURIPlaceholder, promURI)
	return strings.ReplaceAll(s, PromURIAltPlaceholder, strings.Replace(promURI, "127.0.0.1", "localhost", 1))
}

type JSONReport struct {
	Path     string `json:"path"`
	Owner    string `json:"owner,omitempty"`
	Reporter string `json:"reporter"`
	Problem  string `json:"problem"`
	Details  string `json:"details,omitempty"`
	Severity string `json:"severity"`
	Lines    []int  `json:"lines"`
}

type RunResult struct {
	Exit     int
	Stderr   string
	Stdout   string
	JSONRaw  string
	JSONOK   bool // the --json file exists and decodes as a list of reports: linting completed
	Reports  []JSONReport
	TimedOut bool
	StartErr error
}

// SeverityRank maps the JSON reporter's spelling to the severity order
// (Information < Warning < Bug < Fatal); -1 = unknown.
func SeverityRank(s string) int {
	switch s {
	case "Information":
		return 0
	case "Warning":
		return 1
	case "Bug":
		return 2
	case "Fatal":
		return 3
	}
	return -1
}

// FlagRank maps a --fail-on / --min-severity value to the same order.
func FlagRank(s string) int {
	switch s {
	case "info":
		return 0
	case "warning":
		return 1
	case "bug":
		return 2
	case "fatal":
		return 3
	}
	return -1
}

// BaseEnv is the minimal, deterministic environment for pint / git subprocesses.
func BaseEnv(home string) []string {
	return []string{
		"PATH=" + os.Getenv("PATH"),
		"HOME=" + home,
		"LC_ALL=C",
		"TZ=UTC",
		"GIT_CONFIG_NOSYSTEM=1",
		"GIT_CONFIG_GLOBAL=/dev/null",
		"GIT_AUTHOR_NAME=pint", "GIT_AUTHOR_EMAIL=pint@example.com",
		"GIT_COMMITTER_NAME=pint", "GIT_COMMITTER_EMAIL=pint@example.com",
		"GIT_AUTHOR_DATE=2024-01-01T00:00:00Z", "GIT_COMMITTER_DATE=2024-01-01T00:00:00Z",
	}
}

const runTimeout = 120 * time.Second

// RunPint runs the binary in dir; jsonPath is read back afterwards ("" = none).
func RunPint(bin, dir string, args []string, extraEnv []string, jsonPath string) RunResult {
	ctx, cancel := context.WithTimeout(context.Background(), runTimeout)
	defer cancel()
	cmd := exec.CommandContext(ctx, bin, args...)
	cmd.Dir = dir
	cmd.Env = append(BaseEnv(dir), extraEnv...)
	var so, se bytes.Buffer
	cmd.Stdout, cmd.Stderr = &so, &se
	err := cmd.Run()
	res := RunResult{Stdout: so.String(), Stderr: se.String()}
	if ctx.Err() != nil {
		res.TimedOut = true
		res.Exit = -1
		return res
	}
	if err != nil {
		var ee *exec.ExitError
		if errors.As(err, &ee) {
			res.Exit = ee.ExitCode()
		} else {
			res.StartErr = err
			res.Exit = -1
			return res
		}
	}
	if jsonPath != "" {
		if b, rerr := os.ReadFile(jsonPath); rerr == nil {
			res.JSONRaw = string(b)
			var reps []JSONReport
			dec := json.NewDecoder(bytes.NewReader(b))
			if derr := dec.Decode(&reps); derr == nil && strings.HasPrefix(strings.TrimSpace(res.JSONRaw), "[") {
				res.JSONOK = true
				res.Reports = reps
			}
		}
	}
	return res
}

// Git runs one git command in dir.
func Git(dir string, args ...string) error {
	ctx, cancel := context.WithTimeout(context.Background(), runTimeout)
	defer cancel()
	cmd := exec.CommandContext(ctx, "git", args...)
	cmd.Dir = dir
	cmd.Env = BaseEnv(dir)
	out, err := cmd.CombinedOutput()
	if err != nil {
		return fmt.Errorf("git %s: %v: %s", strings.Join(args, " "), err, out)
	}
	return nil
}

// LintArgs chooses how the files are named on the command line.
//
//	"files": every file by name; "dirs": top-level files by name + directories; "dot": "."
func LintArgs(in Input, style string) []string {
	switch style {
	case "dot":
		return []string{"."}
	case "dirs":
		seen := map[string]bool{}
		var out []string
		for _, f := range in.Files {
			top := strings.SplitN(f.Name, "/", 2)[0]
			if !seen[top] {
				seen[top] = true
				out = append(out, top)
			}
		}
		return out
	default:
		return in.Names()
	}
}
