// C05 - exit status is non-zero exactly when a problem reaches --fail-on.
//
//	TestPropLintExit  real binary, `pint lint`: generated files x generated config x
//	                  {--fail-on} x {--min-severity} x --show-duplicates x --workers
//	TestPropCIExit    real binary, `pint ci` inside a generated two-commit git repository
//	TestReplay        re-runs one stored case
//
// Oracle (per completed run): exit != 0  <=>  the run's own --json report holds a
// problem with severity >= the fail-on threshold (default bug).  Metamorphic (per
// case, same files and config): the status is the same for every --min-severity
// and both --show-duplicates settings at a fixed --fail-on, and monotone in
// --fail-on.  A run "completed linting" iff its --json file decodes as a report
// list (the JSON reporter runs after the checks and after flag validation); other
// runs (bad flag, config error, crash) are discarded and counted.
package c05

import (
	"errors"
	"fmt"
	"os"
	"path/filepath"
	"sort"
	"strings"
	"sync"
	"testing"

	"pgregory.net/rapid"

	"github.com/cloudflare/pint/verifharness/vstat"
)

const prop = "C05"

type RunSpec struct {
	FailOn  string `json:"fail_on"`      // "" = flag absent (default bug)
	MinSev  string `json:"min_severity"` // "" = flag absent; lint only
	ShowDup bool   `json:"show_duplicates"`
	Workers int    `json:"workers"` // 0 = flag absent
	Equals  bool   `json:"equals"`  // --fail-on=F instead of --fail-on F
	// TeamCity replaces the console reporter by the TeamCity one (which never opens the
	// rule files): the reference run whose --json report stands in for runs of the same
	// case that completed linting but whose console reporter failed.
	TeamCity bool `json:"teamcity,omitempty"`
	// Report files asked for: "" or "json" = --json only, "both" = --checkstyle and --json,
	// "checkstyle" = --checkstyle only, "none" = neither.  Runs without --json are judged
	// against the JSON report of another run of the same input.
	Report   string `json:"report,omitempty"`
	Color    bool   `json:"color,omitempty"`     // leave --no-color out
	LogLevel string `json:"log_level,omitempty"` // -l <level>
}

func (r RunSpec) wantsJSON() bool { return r.Report == "" || r.Report == "json" || r.Report == "both" }

type Case struct {
	Kind     string     `json:"kind"` // "lint" | "ci"
	Input    Input      `json:"input"`
	Base     []FileSpec `json:"base,omitempty"` // ci: files on the base branch (Input = branch state)
	Offline  bool       `json:"offline"`
	ArgStyle string     `json:"arg_style,omitempty"`
	Runs     []RunSpec  `json:"runs"`
}

type Outcome struct {
	Completed bool
	Discard   string // reason when !Completed
	Exit      int
	Counts    [4]int // reports per severity rank
	Unknown   int    // reports with a severity the JSON reader does not know
	Threshold int    // rank of the effective fail-on
	Borrowed  int    // >= 0: linting completed but reporting failed; Counts come from that run of the same case
	// PreLint is set when a `pint ci` run died before any check ran for a reason that is
	// neither configuration, flags nor an empty file set, although `pint lint` completes on
	// the very same tree: it exited non-zero without a single reported problem.
	PreLint string
}

func (o Outcome) sevSet() string {
	var b strings.Builder
	for i, c := range "IWBF" {
		if o.Counts[i] > 0 {
			b.WriteRune(c)
		}
	}
	if b.Len() == 0 {
		return "-"
	}
	return b.String()
}

func (o Outcome) distinct() int {
	n := 0
	for _, c := range o.Counts {
		if c > 0 {
			n++
		}
	}
	return n
}

func (o Outcome) hasBelow() bool {
	for i := 0; i < o.Threshold && i < 4; i++ {
		if o.Counts[i] > 0 {
			return true
		}
	}
	return false
}

func (o Outcome) hasAtOrAbove() bool {
	for i := max(o.Threshold, 0); i < 4; i++ {
		if o.Counts[i] > 0 {
			return true
		}
	}
	return false
}

var errInfra = errors.New("infrastructure")

func pintBin() string { return os.Getenv("VERIF_PINT_BIN") }

func effFailOn(r RunSpec) string {
	if r.FailOn == "" {
		return "bug"
	}
	return r.FailOn
}

func (c Case) args(r RunSpec, jsonPath string) []string {
	var a []string
	if r.ShowDup {
		a = append(a, "-s")
	}
	if !r.Color {
		a = append(a, "--no-color")
	}
	if r.LogLevel != "" {
		a = append(a, "-l", r.LogLevel)
	}
	if c.Offline {
		a = append(a, "--offline")
	}
	if r.Workers > 0 {
		a = append(a, "--workers", fmt.Sprint(r.Workers))
	}
	a = append(a, "-c", ".pint.hcl", c.Kind)
	if c.Kind == "ci" {
		a = append(a, "--base-branch", "main")
	}
	if r.FailOn != "" {
		if r.Equals {
			a = append(a, "--fail-on="+r.FailOn)
		} else {
			a = append(a, "--fail-on", r.FailOn)
		}
	}
	if r.MinSev != "" && c.Kind == "lint" {
		a = append(a, "--min-severity", r.MinSev)
	}
	if r.TeamCity {
		a = append(a, "--teamcity")
	}
	if r.Report == "both" || r.Report == "checkstyle" {
		a = append(a, "--checkstyle", strings.TrimSuffix(jsonPath, ".json")+".xml")
	}
	if r.wantsJSON() {
		a = append(a, "--json", jsonPath)
	}
	if c.Kind == "lint" {
		a = append(a, LintArgs(c.Input, c.ArgStyle)...)
	}
	return a
}

// setup materialises the case; returns the working directory and the output directory.
func setup(c Case) (root, work, out string, err error) {
	root, err = MkScratch("vc05-")
	if err != nil {
		return "", "", "", fmt.Errorf("%w: %v", errInfra, err)
	}
	work, out = filepath.Join(root, "in"), filepath.Join(root, "out")
	for _, d := range []string{work, out} {
		if err = os.MkdirAll(d, 0o755); err != nil {
			return root, "", "", fmt.Errorf("%w: %v", errInfra, err)
		}
	}
	fail := func(e error) (string, string, string, error) {
		return root, "", "", fmt.Errorf("%w: %v", errInfra, e)
	}
	if c.Kind == "lint" {
		if err = Materialize(work, c.Input, ""); err != nil {
			return fail(err)
		}
		return root, work, out, nil
	}
	// ci: base commit on main (config + base files), one commit on branch v2 with the Input's files
	if err = Git(work, "init", "-q", "--initial-branch=main", "."); err != nil {
		return fail(err)
	}
	if err = Materialize(work, Input{Files: c.Base, Config: c.Input.Config}, ""); err != nil {
		return fail(err)
	}
	if err = Git(work, "add", "-A", "."); err != nil {
		return fail(err)
	}
	if err = Git(work, "commit", "-q", "--allow-empty", "-m", "base"); err != nil {
		return fail(err)
	}
	if err = Git(work, "checkout", "-q", "-b", "v2"); err != nil {
		return fail(err)
	}
	for _, f := range c.Base {
		_ = os.Remove(filepath.Join(work, f.Name))
	}
	if err = WriteFiles(work, c.Input.Files); err != nil {
		return fail(err)
	}
	if err = Git(work, "add", "-A", "."); err != nil {
		return fail(err)
	}
	if err = Git(work, "commit", "-q", "--allow-empty", "-m", "change"); err != nil {
		return fail(err)
	}
	return root, work, out, nil
}

func classifyDiscard(res RunResult) string {
	se := res.Stderr
	switch {
	case strings.Contains(se, "panic:") || strings.Contains(se, "goroutine 1 ["):
		return "crash"
	case strings.Contains(se, "failed to load config file"):
		return "config-error"
	case strings.Contains(se, "invalid --fail-on value") || strings.Contains(se, "invalid --min-severity value"):
		return "invalid-flag"
	case strings.Contains(se, "submitting reports"):
		return "reporter-error"
	case strings.Contains(se, "no matching files"):
		return "no-files"
	case strings.Contains(se, "invalid file syntax"):
		return "file-syntax"
	case res.Exit == 0:
		return "exit0-no-json"
	}
	return "other"
}

// execute runs every RunSpec of the case against the binary.
func execute(c Case, bin string) ([]Outcome, []RunResult, error) {
	root, work, out, err := setup(c)
	if root != "" {
		defer os.RemoveAll(root)
	}
	if err != nil {
		return nil, nil, err
	}
	results := make([]RunResult, len(c.Runs))
	var wg sync.WaitGroup
	sem := make(chan struct{}, 8)
	for i := range c.Runs {
		wg.Add(1)
		go func(i int) {
			defer wg.Done()
			sem <- struct{}{}
			defer func() { <-sem }()
			jp := filepath.Join(out, fmt.Sprintf("out%d.json", i))
			results[i] = RunPint(bin, work, c.args(c.Runs[i], jp), nil, jp)
		}(i)
	}
	wg.Wait()
	outs := make([]Outcome, len(c.Runs))
	for i, res := range results {
		if res.TimedOut || res.StartErr != nil {
			return nil, results, fmt.Errorf("%w: run %d: timeout=%v err=%v", errInfra, i, res.TimedOut, res.StartErr)
		}
		o := Outcome{Exit: res.Exit, Threshold: FlagRank(effFailOn(c.Runs[i])), Borrowed: -1}
		if !res.JSONOK {
			o.Discard = classifyDiscard(res)
			outs[i] = o
			continue
		}
		o.Completed = true
		for _, r := range res.Reports {
			if k := SeverityRank(r.Severity); k >= 0 {
				o.Counts[k]++
			} else {
				o.Unknown++
			}
		}
		outs[i] = o
	}
	// A run that got as far as submitting reports completed linting: the report set is a
	// function of the input only (the JSON reporter ignores every flag), so it is taken from
	// a run of the same case that did write its JSON (preferably the --teamcity one).
	ref := -1
	for i, o := range outs {
		if o.Completed && o.Unknown == 0 && (ref < 0 || (c.Runs[i].TeamCity && !c.Runs[ref].TeamCity)) {
			ref = i
		}
	}
	if ref >= 0 {
		for i := range outs {
			// runs without --json: a failure before linting completes depends on the input or on
			// a flag value (both classified from stderr), so if the reference run completed and
			// this run shows neither, it completed too
			noJSON := !c.Runs[i].wantsJSON() && (outs[i].Discard == "other" || outs[i].Discard == "exit0-no-json")
			if !outs[i].Completed && (outs[i].Discard == "reporter-error" || noJSON) {
				outs[i].Completed = true
				outs[i].Counts = outs[ref].Counts
				outs[i].Borrowed = ref
			}
		}
	}
	if c.Kind == "ci" {
		var dead []int
		for i, o := range outs {
			if !o.Completed && o.Exit != 0 && (o.Discard == "other" || o.Discard == "file-syntax") && c.Runs[i].wantsJSON() {
				dead = append(dead, i)
			}
		}
		if len(dead) > 0 {
			jp := filepath.Join(out, "lintref.json")
			lr := RunPint(bin, work, []string{"--no-color", "--offline", "-c", ".pint.hcl", "lint", "--json", jp, "*"}, nil, jp)
			if lr.TimedOut || lr.StartErr != nil {
				return nil, results, fmt.Errorf("%w: lint reference run: timeout=%v err=%v", errInfra, lr.TimedOut, lr.StartErr)
			}
			if lr.JSONOK {
				for _, i := range dead {
					outs[i].PreLint = lastErrorLine(results[i].Stderr)
				}
			}
		}
	}
	return outs, results, nil
}

func lastErrorLine(stderr string) string {
	lines := strings.Split(strings.TrimRight(stderr, "\n"), "\n")
	for i := len(lines) - 1; i >= 0; i-- {
		if strings.Contains(lines[i], "Execution completed with error(s)") {
			return lines[i]
		}
	}
	if len(lines) > 0 {
		return lines[len(lines)-1]
	}
	return "(empty stderr)"
}

// oracle applies the reference and the metamorphic relations.
func oracle(c Case, outs []Outcome, results []RunResult) error {
	tail := func(i int) string {
		se := results[i].Stderr
		if len(se) > 1500 {
			se = "..." + se[len(se)-1500:]
		}
		return se
	}
	type dec struct {
		i    int
		rank int
		fail bool
	}
	var decided []dec
	for i, o := range outs {
		if o.PreLint != "" {
			return fmt.Errorf("run %d (ci fail-on=%q): exit status %d although no problem was reported: `pint ci` died before any check ran, for a reason that is neither configuration, flags nor an empty file set, on a tree that `pint lint *` handles (it completed and wrote its JSON report)\n--- last error ---\n%s",
				i, c.Runs[i].FailOn, o.Exit, o.PreLint)
		}
		if !o.Completed || o.Unknown > 0 || o.Threshold < 0 {
			continue
		}
		r := c.Runs[i]
		want := o.hasAtOrAbove()
		got := o.Exit != 0
		if want != got {
			src := "the run's own JSON report"
			if o.Borrowed >= 0 {
				src = fmt.Sprintf("(no JSON report of its own: not asked for, or a reporter failed after linting) the JSON report of run %d of the same input", o.Borrowed)
			}
			return fmt.Errorf("run %d (%s fail-on=%q min-severity=%q show-duplicates=%v workers=%d teamcity=%v report-files=%q colour=%v log-level=%q): exit status %d but %s has %d Information, %d Warning, %d Bug, %d Fatal problem(s) (threshold %s)\n--- stderr tail ---\n%s",
				i, c.Kind, r.FailOn, r.MinSev, r.ShowDup, r.Workers, r.TeamCity, r.Report, r.Color, r.LogLevel, o.Exit, src, o.Counts[0], o.Counts[1], o.Counts[2], o.Counts[3], effFailOn(r), tail(i))
		}
		decided = append(decided, dec{i, o.Threshold, got})
	}
	// metamorphic: same threshold -> same status whatever min-severity / show-duplicates / workers;
	// lower threshold never turns a failing run into a passing one.
	for _, a := range decided {
		for _, b := range decided {
			if a.rank == b.rank && a.fail != b.fail {
				return fmt.Errorf("runs %d and %d share fail-on=%s but differ in status (%d vs %d): %+v vs %+v",
					a.i, b.i, effFailOn(c.Runs[a.i]), outs[a.i].Exit, outs[b.i].Exit, c.Runs[a.i], c.Runs[b.i])
			}
			if a.rank < b.rank && b.fail && !a.fail {
				return fmt.Errorf("status is not monotone in --fail-on: run %d (fail-on=%s) exits %d but run %d (fail-on=%s) exits %d",
					a.i, effFailOn(c.Runs[a.i]), outs[a.i].Exit, b.i, effFailOn(c.Runs[b.i]), outs[b.i].Exit)
			}
		}
	}
	return nil
}

// ---------------------------------------------------------------------------
// generators

var flagSev = []string{"", "info", "warning", "bug", "fatal"}

func genRun(t *rapid.T, lbl, failOn string, lint bool) RunSpec {
	r := RunSpec{FailOn: failOn}
	if lint {
		r.MinSev = rapid.SampledFrom(flagSev).Draw(t, lbl+".min")
	}
	r.ShowDup = rapid.Bool().Draw(t, lbl+".dup")
	r.Workers = rapid.SampledFrom([]int{0, 0, 1, 2, 16}).Draw(t, lbl+".workers")
	r.Equals = rapid.Bool().Draw(t, lbl+".eq")
	r.Report = rapid.SampledFrom([]string{"json", "json", "json", "both", "both", "both", "checkstyle", "none"}).Draw(t, lbl+".report")
	r.Color = rapid.IntRange(0, 3).Draw(t, lbl+".color") == 0
	r.LogLevel = rapid.SampledFrom([]string{"", "", "debug", "error", "warn"}).Draw(t, lbl+".loglevel")
	return r
}

func genRuns(t *rapid.T, lint, reference bool) []RunSpec {
	var runs []RunSpec
	for i, f := range flagSev {
		runs = append(runs, genRun(t, fmt.Sprintf("run%d", i), f, lint))
	}
	if !runs[0].wantsJSON() {
		runs[0].Report = "both"
	}
	extra := 2
	if lint {
		extra = 3
	}
	f := rapid.SampledFrom(flagSev).Draw(t, "extra.failon")
	for i := 0; i < extra; i++ {
		runs = append(runs, genRun(t, fmt.Sprintf("extra%d", i), f, lint))
	}
	if !lint || reference || rapid.IntRange(0, 3).Draw(t, "teamcity") == 0 {
		r := genRun(t, "tc", rapid.SampledFrom(flagSev).Draw(t, "tc.failon"), lint)
		r.TeamCity = true
		if !r.wantsJSON() {
			r.Report = "json"
		}
		runs = append(runs, r)
	}
	if rapid.IntRange(0, 19).Draw(t, "badflag") == 0 {
		r := genRun(t, "bad", "bug", lint)
		if lint && rapid.Bool().Draw(t, "bad.which") {
			r.MinSev = rapid.SampledFrom([]string{"error", "Bug", "information"}).Draw(t, "bad.min")
		} else {
			r.FailOn = rapid.SampledFrom([]string{"error", "Bug", "information", "none"}).Draw(t, "bad.failon")
		}
		runs = append(runs, r)
	}
	return runs
}

func hasTag(in Input, tag string) bool {
	for _, t := range in.Tags {
		if t == tag {
			return true
		}
	}
	return false
}

func lintOpts() GenOpts {
	return GenOpts{LongLine: true, MinFiles: 1, MaxFiles: 4, MaxGroups: 2, MaxRules: 4, PoolSize: 4, ParseErrors: true, Symlinks: true, Styles: DefaultStyles()}
}

func genLintCase(t *rapid.T) Case {
	c := Case{Kind: "lint"}
	c.Input = GenInput(t, lintOpts())
	c.Offline = rapid.Bool().Draw(t, "offline")
	c.ArgStyle = rapid.SampledFrom([]string{"files", "files", "dirs", "dot"}).Draw(t, "argstyle")
	c.Runs = genRuns(t, true, hasTag(c.Input, "long-line"))
	return c
}

func genCICase(t *rapid.T) Case {
	c := Case{Kind: "ci"}
	o := lintOpts()
	o.Symlinks = false
	branch := GenInput(t, o)
	c.Input = branch
	// base: per branch file keep / other content / absent; plus files deleted on the branch
	alt := GenInput(t, o) // independent draw: source of "old" contents and of deleted files
	for i, f := range branch.Files {
		switch rapid.IntRange(0, 3).Draw(t, fmt.Sprintf("base%d", i)) {
		case 0: // unchanged
			c.Base = append(c.Base, f)
		case 1: // modified: old content from the alternative draw (same name)
			if i < len(alt.Files) {
				c.Base = append(c.Base, FileSpec{Name: f.Name, Content: alt.Files[i].Content})
			}
		case 2: // modified by appending: base = prefix of the branch content (whole lines)
			lines := strings.SplitAfter(f.Content, "\n")
			if len(lines) > 3 {
				n := rapid.IntRange(2, len(lines)-1).Draw(t, fmt.Sprintf("base%d.cut", i))
				c.Base = append(c.Base, FileSpec{Name: f.Name, Content: strings.Join(lines[:n], "")})
			}
		default: // added on the branch
		}
	}
	have := map[string]bool{}
	for _, f := range branch.Files {
		have[f.Name] = true
	}
	for _, f := range alt.Files {
		if !have[f.Name] && rapid.Bool().Draw(t, "deleted."+f.Name) {
			c.Base = append(c.Base, f) // deleted on the branch
		}
	}
	// whole files renamed on the branch (same content, other name)
	for i, f := range c.Base {
		if have[f.Name] && f.Symlink == "" && rapid.IntRange(0, 7).Draw(t, fmt.Sprintf("rename%d", i)) == 0 {
			for j, bf := range c.Input.Files {
				if bf.Name == f.Name {
					c.Input.Files[j].Name = "moved/" + strings.ReplaceAll(f.Name, "/", "_")
					c.Input.Files[j].Content = f.Content
				}
			}
		}
	}
	depScenario(t, &c)
	c.Offline = rapid.Bool().Draw(t, "offline")
	c.Runs = genRuns(t, false, true)
	return c
}

// depScenario adds a provider file (recording rules) and a user file (rules whose
// expressions read them) and lets the branch delete the provider file, remove or
// empty its rules, rename it, or delete both - the shapes in which rule/dependency
// reports problems on paths that no longer exist.
func depScenario(t *rapid.T, c *Case) {
	kind := rapid.SampledFrom([]string{"none", "none", "delete-file", "delete-file", "delete-file", "remove-rule", "empty-rules", "rename", "delete-both", "delete-file-user-modified"}).Draw(t, "dep.kind")
	if kind == "none" {
		return
	}
	rec := rapid.SampledFrom([]string{"dep:up:sum", "dep:foo:rate5m"}).Draw(t, "dep.record")
	nusers := rapid.IntRange(1, 3).Draw(t, "dep.nusers")
	provider := func(withRec, withOther bool) string {
		s := "groups:\n- name: provider\n  rules:"
		if !withRec && !withOther {
			return s + " []\n"
		}
		s += "\n"
		if withOther {
			s += "  - record: dep:other\n    expr: sum(bar)\n"
		}
		if withRec {
			s += "  - record: " + rec + "\n    expr: sum(up)\n"
		}
		return s
	}
	user := func(extra string) string {
		s := "groups:\n- name: users\n  rules:\n"
		for i := 0; i < nusers; i++ {
			s += fmt.Sprintf("  - alert: DepUser%d\n    expr: %s == %d\n%s    annotations:\n      summary: uses a recording rule\n", i, rec, i, extra)
		}
		return s
	}
	other := rapid.Bool().Draw(t, "dep.other")
	pname, uname := "dep/provider.yml", "dep/user.yml"
	if rapid.Bool().Draw(t, "dep.flat") {
		pname, uname = "provider.yml", "user.yml"
	}
	c.Base = append(c.Base, FileSpec{Name: pname, Content: provider(true, other)}, FileSpec{Name: uname, Content: user("")})
	switch kind {
	case "delete-file":
		c.Input.Files = append(c.Input.Files, FileSpec{Name: uname, Content: user("")})
	case "delete-file-user-modified":
		c.Input.Files = append(c.Input.Files, FileSpec{Name: uname, Content: user("    for: 5m\n")})
	case "remove-rule":
		c.Input.Files = append(c.Input.Files, FileSpec{Name: pname, Content: provider(false, true)}, FileSpec{Name: uname, Content: user("")})
	case "empty-rules":
		c.Input.Files = append(c.Input.Files, FileSpec{Name: pname, Content: provider(false, false)}, FileSpec{Name: uname, Content: user("")})
	case "rename":
		c.Input.Files = append(c.Input.Files, FileSpec{Name: "moved/" + strings.ReplaceAll(pname, "/", "_"), Content: provider(true, other)}, FileSpec{Name: uname, Content: user("")})
	case "delete-both":
	}
	c.Input.Tags = append(c.Input.Tags, "dep:"+kind)
}

// ---------------------------------------------------------------------------
// properties

func drive(t *testing.T, g func(*rapid.T) Case) {
	bin := pintBin()
	if bin == "" {
		t.Fatalf("VERIF_PINT_BIN is not set (run through /verif/check)")
	}
	rec := vstat.New(t, prop)
	rapid.Check(t, func(rt *rapid.T) {
		c := g(rt)
		err := runCase(rec, c, bin)
		if errors.Is(err, errInfra) {
			t.Fatalf("inconclusive: %v", err)
		}
		if err != nil {
			rec.Fail(c, err)
			rt.Fatalf("%v\n--- config ---\n%s\n--- files ---\n%s", err, c.Input.Config, describeFiles(c))
		}
	})
}

func describeFiles(c Case) string {
	var b strings.Builder
	for _, f := range c.Base {
		fmt.Fprintf(&b, "[base] %s:\n%s\n", f.Name, f.Content)
	}
	for _, f := range c.Input.Files {
		if f.Symlink != "" {
			fmt.Fprintf(&b, "%s -> %s\n", f.Name, f.Symlink)
			continue
		}
		fmt.Fprintf(&b, "%s:\n%s\n", f.Name, f.Content)
	}
	return b.String()
}

func runCase(rec *vstat.Recorder, c Case, bin string) error {
	outs, results, err := execute(c, bin)
	if err != nil {
		return err
	}
	key := c.Input.Key()
	for _, f := range c.Base {
		key += "\x02" + f.Name + "\x00" + f.Content
	}
	for i, o := range outs {
		r := c.Runs[i]
		if rec != nil {
			if !o.Completed {
				rec.Count("discarded_runs", 1)
				rec.Count("discard:"+o.Discard, 1)
				if os.Getenv("VERIF_C05_DEBUG") != "" && o.Discard == "other" {
					se := results[i].Stderr
					fmt.Fprintf(os.Stderr, "DISCARD other: run=%+v exit=%d stderr tail: %s\n", r, o.Exit, strings.ReplaceAll(se[max(0, len(se)-400):], "\n", " | "))
				}
				rec.Case(fmt.Sprintf("%s:discarded:%s", c.Kind, o.Discard), false, "", nil)
				continue
			}
			if o.Unknown > 0 {
				rec.Count("runs_with_unknown_severity", 1)
			}
			failed := 0
			if o.Exit != 0 {
				failed = 1
			}
			class := fmt.Sprintf("%s:fail-on=%s:sev=%s:fail=%d", c.Kind, orAbsent(r.FailOn), o.sevSet(), failed)
			if o.Borrowed >= 0 {
				rec.Count("runs_judged_by_the_json_of_a_reference_run", 1)
			}
			if r.TeamCity {
				rec.Count("teamcity_reference_runs", 1)
			}
			rec.Count("report-files="+orAbsent(r.Report), 1)
			if r.Color {
				rec.Count("colour", 1)
			}
			if r.LogLevel != "" {
				rec.Count("log-level="+r.LogLevel, 1)
			}
			if hasTag(c.Input, "long-line") {
				rec.Count("runs_on_inputs_with_a_70-100KiB_line", 1)
			}
			for _, tg := range c.Input.Tags {
				if strings.HasPrefix(tg, "dep:") {
					rec.Count("ci_scenario:"+tg, 1)
				}
			}
			nontrivial := o.distinct() >= 2 && o.hasBelow()
			rec.Count("min-severity="+orAbsent(r.MinSev), 1)
			if r.ShowDup {
				rec.Count("show-duplicates", 1)
			}
			rec.Case(class, nontrivial, fmt.Sprintf("%s\x03%+v", key, r), func() any {
				return map[string]any{"kind": c.Kind, "run": r, "offline": c.Offline, "exit": o.Exit,
					"reports": map[string]int{"Information": o.Counts[0], "Warning": o.Counts[1], "Bug": o.Counts[2], "Fatal": o.Counts[3]},
					"config":  c.Input.Config, "files": c.Input.Files, "base": c.Base}
			})
		}
	}
	return oracle(c, outs, results)
}

func orAbsent(s string) string {
	if s == "" {
		return "absent"
	}
	return s
}

func TestPropLintExit(t *testing.T) { drive(t, genLintCase) }
func TestPropCIExit(t *testing.T)   { drive(t, genCICase) }

func TestReplay(t *testing.T) {
	p := vstat.ReplayPath()
	if p == "" {
		t.Skip("VERIF_REPLAY not set")
	}
	bin := pintBin()
	if bin == "" {
		t.Fatalf("VERIF_PINT_BIN is not set")
	}
	var c Case
	if err := vstat.LoadReplay(p, &c); err != nil {
		t.Fatal(err)
	}
	outs, results, err := execute(c, bin)
	if err != nil {
		t.Skipf("inconclusive: %v", err) // no PASS line: the driver reports exit 2
	}
	var lines []string
	for i, o := range outs {
		lines = append(lines, fmt.Sprintf("run %d %+v -> completed=%v discard=%q exit=%d counts=%v", i, c.Runs[i], o.Completed, o.Discard, o.Exit, o.Counts))
	}
	sort.Strings(lines)
	t.Log("\n" + strings.Join(lines, "\n"))
	if err := oracle(c, outs, results); err != nil {
		t.Fatalf("%v", err)
	}
}
