package c10

import (
	"strings"
	"testing"

	"github.com/cloudflare/pint/verifharness/vstat"
)

const fuzzBase = "groups:\n- name: g\n  rules:\n  - alert: Foo\n    expr: foo\n    annotations:\n      summary: '{{ $labels.job }}'\n  - record: foo:sum\n    expr: sum(foo) by (job)\n"

// fuzzCase builds an insertion case: the fuzzed payload inside an excluded
// block of the given form, placed before line `at` of a fixed document, vs.
// blank lines in its place.  ok=false when the payload would break the form's
// own precondition.
func fuzzCase(payload []byte, form, at uint8, relaxed bool) (Case, bool) {
	p := string(payload)
	if strings.Contains(p, "\r") || len(p) > 2000 {
		return Case{}, false
	}
	pl := strings.Split(p, "\n")
	if len(pl) > 8 {
		pl = pl[:8]
	}
	base := strings.Split(strings.TrimRight(fuzzBase, "\n"), "\n")
	idx, _ := points(base)
	pos := idx[int(at)%len(idx)]
	var blk []string
	f := []string{"line", "next-line", "begin-end"}[int(form)%3]
	pint := false
	// NEL, LS and PS end a line for the YAML reader and for pint just like LF does: a payload line holding
	// one is several lines.  Inside begin..end that only changes how many lines the block has; the per-line
	// forms would leave the part after the break outside the exclusion.
	pj := strings.Join(pl, "\n")
	extra := strings.Count(pj, "\u0085") + strings.Count(pj, "\u2028") + strings.Count(pj, "\u2029")
	if extra > 0 && f != "begin-end" {
		return Case{}, false
	}
	for _, l := range pl {
		if i := strings.Index(l, "#"); i >= 0 {
			if f == "line" {
				return Case{}, false
			}
			if strings.Contains(l[i:], "pint") {
				pint = true
				if f == "begin-end" && strings.Contains(l[i:], "ignore/end") {
					return Case{}, false
				}
			}
		}
	}
	switch f {
	case "line":
		for _, l := range pl {
			blk = append(blk, l+" # pint ignore/line")
		}
	case "next-line":
		for _, l := range pl {
			blk = append(blk, "# pint ignore/next-line", l)
		}
	default:
		blk = append(append([]string{"# pint ignore/begin"}, pl...), "# pint ignore/end")
	}
	join := func(mid []string) string {
		all := append(append(append([]string{}, base[:pos]...), mid...), base[pos:]...)
		return strings.Join(all, "\n") + "\n"
	}
	return Case{A: join(blk), B: join(make([]string, len(blk)+extra)), Relaxed: relaxed, Form: f, Rel: "insertion", Payload: "fuzz", Point: "fuzz", PintComment: pint}, true
}

// FuzzMask: coverage-guided search over excluded payloads (thorough tier only).
func FuzzMask(f *testing.F) {
	for i, p := range payloadPool {
		f.Add([]byte(strings.Join(p.lines, "\n")), uint8(i), uint8(i/3), i%5 == 0)
	}
	f.Fuzz(func(t *testing.T, payload []byte, form, at uint8, relaxed bool) {
		c, ok := fuzzCase(payload, form, at, relaxed)
		if !ok {
			t.Skip()
		}
		if _, err := check(c); err != nil {
			t.Fatalf("%v\n--- A ---\n%s", err, c.A)
		}
	})
}

func replayFuzz(t *testing.T, path string) bool {
	_, args, ok, err := vstat.LoadFuzzCase(path)
	if !ok {
		return false
	}
	if err != nil || len(args) != 4 {
		t.Fatalf("bad fuzz case: %v %v", err, args)
	}
	c, ok := fuzzCase(args[0].([]byte), uint8(args[1].(uint64)), uint8(args[2].(uint64)), args[3].(bool))
	if !ok {
		return true
	}
	if _, err := check(c); err != nil {
		t.Fatalf("%v", err)
	}
	return true
}
