// C10 - text excluded by ignore comments cannot influence the result.
//
// Every case is a pair of files with the same number of lines that differ only
// inside an excluded region (or where one has an excluded block and the other
// blank lines in its place).  Oracle: identical digests - entries (rules with
// all positions, parse errors, owners, file-level disabled checks, modified
// lines) and problems from the default offline checks.
package c10

import (
	"errors"
	"fmt"
	"sort"
	"strings"
	"testing"

	"pgregory.net/rapid"

	"github.com/cloudflare/pint/verifharness/gen"
	"github.com/cloudflare/pint/verifharness/lint"
	"github.com/cloudflare/pint/verifharness/sig"
	"github.com/cloudflare/pint/verifharness/vstat"
)

const prop = "C10"

type Case struct {
	A       string `json:"a"`
	B       string `json:"b"`
	Relaxed bool   `json:"relaxed"`
	Form    string `json:"form"`
	Rel     string `json:"relation"` // replacement | insertion
	Payload string `json:"payload_class"`
	Point   string `json:"point"`
	// PintComment: the excluded text of A or B contains something that parses as a pint control comment
	PintComment bool `json:"pint_comment_in_excluded_text"`
}

var errSkip = errors.New("precondition not met")

func digest(src string, relaxed bool) (string, int, error) {
	res := lint.Bytes([]byte(src), lint.Options{Relaxed: relaxed, Offline: true})
	if res.Panicked() {
		return "", 0, fmt.Errorf("panic at %s: %v", res.PanicAt, res.Panic)
	}
	if res.FindErr != nil || res.CfgErr != nil {
		return "", 0, fmt.Errorf("lint failed: %v %v", res.FindErr, res.CfgErr)
	}
	var b strings.Builder
	nrules := 0
	for i, e := range res.Entries {
		fmt.Fprintf(&b, "entry %d: owner=%q disabled=%q modified=%v\n", i, e.Owner, e.DisabledChecks, e.ModifiedLines)
		if e.PathError != nil {
			fmt.Fprintf(&b, "  patherror: %s\n", strings.ReplaceAll(e.PathError.Error(), res.Dir, "<dir>"))
			continue
		}
		fmt.Fprintf(&b, "  rule: %s\n", sig.FromRule(e.Group, e.Rule).String())
		if e.Rule.Error.Err == nil {
			nrules++
		}
	}
	probs := lint.Flatten(res.Dir, res.Reports)
	keys := make([]string, 0, len(probs))
	for _, p := range probs {
		keys = append(keys, p.Key())
	}
	sort.Strings(keys)
	for _, k := range keys {
		fmt.Fprintf(&b, "problem: %s\n", k)
	}
	return b.String(), nrules, nil
}

func firstDiff(a, b string) string {
	al, bl := strings.Split(a, "\n"), strings.Split(b, "\n")
	for i := 0; i < len(al) || i < len(bl); i++ {
		var x, y string
		if i < len(al) {
			x = al[i]
		}
		if i < len(bl) {
			y = bl[i]
		}
		if x != y {
			return fmt.Sprintf("first difference at digest line %d:\n  A: %s\n  B: %s", i+1, x, y)
		}
	}
	return ""
}

// yamlLines counts line breaks the way the YAML reader (and pint) does: LF, NEL, LS and PS each end a line.
func yamlLines(s string) int {
	return strings.Count(s, "\n") + strings.Count(s, "\u0085") + strings.Count(s, "\u2028") + strings.Count(s, "\u2029")
}

func check(c Case) (nrules int, err error) {
	if yamlLines(c.A) != yamlLines(c.B) {
		return 0, fmt.Errorf("generator bug: line counts differ")
	}
	da, na, err := digest(c.A, c.Relaxed)
	if err != nil {
		return 0, fmt.Errorf("file A: %w", err)
	}
	db, _, err := digest(c.B, c.Relaxed)
	if err != nil {
		return 0, fmt.Errorf("file B: %w", err)
	}
	if da != db {
		return na, fmt.Errorf("results differ although the files differ only in excluded text (%s, %s): %s", c.Form, c.Rel, firstDiff(da, db))
	}
	return na, nil
}

// payloads --------------------------------------------------------------------

type payload struct {
	class string
	lines []string
	pint  bool // contains text that parses as a pint control comment
	hash  bool // contains '#'
}

var payloadPool = []payload{
	{"jinja", []string{`{% set some_jinja_var1 = "bar" %}`}, false, false},
	{"jinja", []string{`{% for x in y %}`, `  {{ x }}: [`, `{% endfor %}`}, false, false},
	{"broken-yaml", []string{`foo: [bar`}, false, false},
	{"broken-yaml", []string{`  - : : :`, `    }`}, false, false},
	{"broken-yaml", []string{`key: value: other`, `- x`}, false, false},
	{"unbalanced-quote", []string{`"abc`}, false, false},
	{"unbalanced-quote", []string{`msg: 'it's`}, false, false},
	{"tabs", []string{"\tfoo: bar"}, false, false},
	{"long-line", []string{"{% set x = \"" + strings.Repeat("lorem ipsum ", 450) + "\" %}"}, false, false},
	{"long-line", []string{strings.Repeat("a: [", 1200)}, false, false},
	{"backslash", []string{`foo: "bar \`, `  baz\`}, false, false},
	{"utf8", []string{`{% set msg = "→ done ✓" %}`}, false, false},
	// last bytes 0x85 / 0xA8 / 0xA9 / 0xA0: the tail of a NEL, LS or PS line break without being one
	{"utf8-tail", []string{`{{- end }} fin du bloc désactivé`}, false, false},
	{"utf8-tail", []string{`note: [caf`, `  è`}, false, false},
	{"utf8-tail", []string{`copyright: "©`}, false, false},
	{"utf8-tail", []string{`- alert 🚨`}, false, false},
	{"utf8-tail", []string{`x: ą`, `y: Å`, `z: à`}, false, false},
	{"utf8", []string{`日本語: [`, `  é: "ü`}, false, false},
	{"utf8", []string{`- alert: Ünïcödé`, `  expr: up == 0 — nope`}, false, false},
	{"rule-like", []string{`- alert: Injected`, `  expr: up == 0`}, false, false},
	{"rule-like", []string{`  - record: injected:rule`, `    expr: sum(injected)`}, false, false},
	{"rule-like", []string{`groups:`, `- name: injected`, `  rules: []`}, false, false},
	{"rule-like", []string{`    expr: changed`}, false, false},
	{"yaml-doc", []string{`---`, `other: doc`}, false, false},
	{"plain-comment", []string{`# just a comment`}, false, true},
	{"empty", []string{``}, false, false},
	{"spaces", []string{`      `}, false, false},
	{"anchor", []string{`x: &a {y: 1}`, `z: *b`}, false, false},
	{"pint-file-disable", []string{`# pint file/disable promql/series`}, true, true},
	{"pint-file-disable", []string{`foo: bar # pint file/disable alerts/template`}, true, true},
	{"pint-invalid", []string{`# pint file/disable`}, true, true},
	{"pint-invalid", []string{`# pint snooze tomorrow`}, true, true},
	{"pint-ignore-file", []string{`# pint ignore/file`}, true, true},
	{"pint-disable", []string{`# pint disable promql/rate`}, true, true},
	{"pint-disable", []string{`# pint disable alerts/comparison`}, true, true},
	{"pint-owner", []string{`# pint file/owner bob`}, true, true},
	{"pint-owner", []string{`# pint rule/owner alice`}, true, true},
	{"pint-snooze", []string{`# pint file/snooze 2099-01-01 alerts/comparison`}, true, true},
	{"pint-snooze", []string{`# pint snooze 2099-01-01T00:00:00Z alerts/template`}, true, true},
	{"pint-ruleset", []string{`# pint rule/set promql/series min-age 1d`}, true, true},
	{"pint-ignore-nextline", []string{`# pint ignore/next-line`}, true, true},
	{"pint-ignore-nextline", []string{`{% x %} # pint ignore/next-line`}, true, true},
	{"pint-ignore-line", []string{`{% x %} # pint ignore/line`}, true, true},
	{"pint-ignore-begin", []string{`# pint ignore/begin`}, true, true},
	{"pint-ignore-end", []string{`# pint ignore/end`}, true, true},
	{"pint-ignore-end", []string{`{% endfor %} # pint ignore/end`}, true, true},
	{"pint-ignore-begin", []string{`{% for %} # pint ignore/begin`}, true, true},
	{"pint-disable", []string{`foo: [bar # pint disable alerts/comparison`}, true, true},
	{"pint-disable", []string{`{{ x }} # pint disable promql/fragile`}, true, true},
}

func genPayload(t *rapid.T, lbl string, nlines int, allowHash, allowPint, allowEnd bool) payload {
	var out payload
	var classes []string
	for len(out.lines) < nlines {
		p := rapid.SampledFrom(payloadPool).Draw(t, fmt.Sprintf("%s.%d", lbl, len(out.lines)))
		if (p.hash && !allowHash) || (p.pint && !allowPint) || (p.class == "pint-ignore-end" && !allowEnd) {
			p = payloadPool[0]
		}
		for _, l := range p.lines {
			if len(out.lines) < nlines {
				out.lines = append(out.lines, l)
			}
		}
		out.pint = out.pint || p.pint
		classes = append(classes, p.class)
	}
	sort.Strings(classes)
	out.class = strings.Join(dedup(classes), "+")
	return out
}

func dedup(a []string) []string {
	var out []string
	for i, s := range a {
		if i == 0 || s != a[i-1] {
			out = append(out, s)
		}
	}
	return out
}

// base documents --------------------------------------------------------------

func baseStyles() gen.StyleOpts {
	// no block scalars: a masked line turns into spaces, and whitespace directly
	// after a block scalar is content of that scalar by the YAML rules - not
	// something an ignore comment can be expected to prevent.
	return gen.StyleOpts{MultiLine: true, FlowMaps: true, Comments: true, QuotedKeys: true}
}

// insertion points: line indices (0-based, insert before that line) where a
// rule or a group starts, plus top and bottom.
func points(lines []string) (idx []int, kind []string) {
	idx, kind = append(idx, 0), append(kind, "top")
	for i, l := range lines {
		t := strings.TrimLeft(l, " ")
		if i > 0 && (strings.HasPrefix(t, "- alert:") || strings.HasPrefix(t, "- record:") || strings.HasPrefix(t, "- \"alert\":") ||
			strings.HasPrefix(t, "- \"record\":") || strings.HasPrefix(t, "- 'alert':") || strings.HasPrefix(t, "- 'record':")) {
			idx, kind = append(idx, i), append(kind, "between-rules")
		} else if i > 0 && strings.HasPrefix(t, "- name:") {
			idx, kind = append(idx, i), append(kind, "between-groups")
		}
	}
	idx, kind = append(idx, len(lines)), append(kind, "bottom")
	return idx, kind
}

func genCase(t *rapid.T) Case {
	s := gen.NewStyler(t, baseStyles())
	doc := gen.GenDoc(t, 2, 3)
	// some rules get rule-level control comments so that leaking comments matter
	src := s.Doc(doc)
	lines := strings.Split(strings.TrimRight(src, "\n"), "\n")
	// embedded: the rule document sits in a literal block scalar of another document (ConfigMap style, relaxed
	// mode).  Control comments keep the block's indentation (a less indented one would end the scalar); the
	// hidden payload lines may start at column 0 - masked, they are whitespace-only lines shorter than the
	// indentation, which YAML takes for empty lines.
	embedded := rapid.IntRange(0, 4).Draw(t, "embedded") == 0
	cind, pind := "", ""
	if embedded {
		cind = "    "
		if rapid.Bool().Draw(t, "payloadIndented") {
			pind = cind
		}
		for i, l := range lines {
			if l != "" {
				lines[i] = cind + l
			}
		}
		lines = append([]string{"kind: ConfigMap", "data:", "  rules.yml: |"}, lines...)
	}
	idx, kinds := points(lines)
	if embedded {
		// not above the block scalar's header
		var idx2 []int
		var kinds2 []string
		for i := range idx {
			if idx[i] >= 3 {
				idx2, kinds2 = append(idx2, idx[i]), append(kinds2, "embedded-"+kinds[i])
			}
		}
		idx, kinds = idx2, kinds2
	}
	pi := rapid.IntRange(0, len(idx)-1).Draw(t, "point")
	at, point := idx[pi], kinds[pi]
	form := rapid.SampledFrom([]string{"line", "next-line", "begin-end", "begin-end", "file", "mixed"}).Draw(t, "form")
	rel := rapid.SampledFrom([]string{"replacement", "insertion"}).Draw(t, "relation")
	if form == "file" {
		rel = "replacement"
	}
	relaxed := rapid.IntRange(0, 3).Draw(t, "relaxed") == 0 || embedded
	if embedded && form == "file" {
		form = "begin-end"
	}
	c := Case{Form: form, Rel: rel, Relaxed: relaxed, Point: point}

	// the controlling comments are spelled with varying (legal) spacing, the same way in A and B
	spell := func(what string) string {
		return rapid.SampledFrom([]string{"# pint " + what, "#pint " + what, "#  pint   " + what + "  ", "# pint\t" + what, "#\tpint " + what}).Draw(t, "spell")
	}
	cLine, cNext, cBegin, cEnd := spell("ignore/line"), spell("ignore/next-line"), spell("ignore/begin"), spell("ignore/end")
	// block builds the excluded block for one payload
	block := func(form string, p payload) []string {
		switch form {
		case "line":
			out := make([]string, 0, len(p.lines))
			for _, l := range p.lines {
				out = append(out, cind+l+" "+cLine)
			}
			return out
		case "next-line":
			var out []string
			for _, l := range p.lines {
				out = append(out, cind+cNext, pind+l)
			}
			return out
		case "begin-end":
			out := []string{cind + cBegin}
			for _, l := range p.lines {
				if embedded && strings.Contains(l, "ignore/begin") {
					// kept by pint as a control comment of the form (see genInScalarCase): inside a block
					// scalar that is content, not excluded text
					l = strings.Replace(l, "ignore/begin", "ignore/bogus", 1)
				}
				out = append(out, pind+l)
			}
			return append(out, cind+cEnd)
		}
		panic("form")
	}
	n := rapid.IntRange(1, 4).Draw(t, "nlines")
	mk := func(lbl, form string) payload {
		switch form {
		case "line":
			return genPayload(t, lbl, n, false, false, false)
		case "next-line":
			return genPayload(t, lbl, n, true, true, true)
		case "begin-end":
			return genPayload(t, lbl, n, true, true, false)
		}
		return genPayload(t, lbl, n, true, true, true)
	}
	join := func(pre []string, mid []string, post []string) string {
		all := append(append(append([]string{}, pre...), mid...), post...)
		return strings.Join(all, "\n") + "\n"
	}
	switch form {
	case "file":
		// everything after ignore/file is payload (the rest of the real document is replaced)
		pa, pb := mk("pa", "file"), mk("pb", "file")
		cFile := spell("ignore/file")
		c.A = join(lines[:at], append([]string{cFile}, pa.lines...), nil)
		c.B = join(lines[:at], append([]string{cFile}, pb.lines...), nil)
		c.Payload, c.PintComment = pa.class+" | "+pb.class, pa.pint || pb.pint
	case "mixed":
		// adjacency / nesting: two excluded blocks of different forms back to back
		f1 := rapid.SampledFrom([]string{"line", "next-line", "begin-end"}).Draw(t, "f1")
		f2 := rapid.SampledFrom([]string{"line", "next-line", "begin-end"}).Draw(t, "f2")
		pa1, pa2 := mk("pa1", f1), mk("pa2", f2)
		blkA := append(block(f1, pa1), block(f2, pa2)...)
		var blkB []string
		if rel == "replacement" {
			pb1, pb2 := mk("pb1", f1), mk("pb2", f2)
			blkB = append(block(f1, pb1), block(f2, pb2)...)
			c.PintComment = pb1.pint || pb2.pint
		} else {
			blkB = make([]string, len(blkA))
		}
		c.A, c.B = join(lines[:at], blkA, lines[at:]), join(lines[:at], blkB, lines[at:])
		c.Form = "mixed:" + f1 + "+" + f2
		c.Payload, c.PintComment = pa1.class+" | "+pa2.class, c.PintComment || pa1.pint || pa2.pint
	default:
		pa := mk("pa", form)
		blkA := block(form, pa)
		var blkB []string
		if rel == "replacement" {
			pb := mk("pb", form)
			blkB = block(form, pb)
			c.Payload, c.PintComment = pa.class+" | "+pb.class, pa.pint || pb.pint
		} else {
			blkB = make([]string, len(blkA)) // blank lines in place of the block
			c.Payload, c.PintComment = pa.class, pa.pint
		}
		c.A, c.B = join(lines[:at], blkA, lines[at:]), join(lines[:at], blkB, lines[at:])
	}
	// a file whose last line has no line break (the excluded text may be that last line)
	if rapid.IntRange(0, 4).Draw(t, "nofinalnl") == 0 && !strings.HasSuffix(c.A, "\n\n") && !strings.HasSuffix(c.B, "\n\n") {
		c.A, c.B = strings.TrimSuffix(c.A, "\n"), strings.TrimSuffix(c.B, "\n")
	}
	return c
}

// genInScalarCase: the excluded block sits between the lines of a multi-line scalar value (literal, folded,
// double-quoted) of a rule field - template directives inside an expression are the documented use of
// ignore/line.  Only the replacement relation applies there, and the two payloads are padded to the same
// byte length per line: a masked line is a run of spaces, and inside a scalar the length of such a run can
// be content (YAML's business, not the masking's).
func genInScalarCase(t *rapid.T) Case {
	form := rapid.SampledFrom([]string{"line", "next-line", "begin-end"}).Draw(t, "form")
	spell := func(what string) string {
		return rapid.SampledFrom([]string{"# pint " + what, "#pint " + what, "#  pint   " + what + "  "}).Draw(t, "spell")
	}
	cLine, cNext, cBegin, cEnd := spell("ignore/line"), spell("ignore/next-line"), spell("ignore/begin"), spell("ignore/end")
	n := rapid.IntRange(1, 3).Draw(t, "nlines")
	var pa, pb payload
	switch form {
	case "line":
		pa, pb = genPayload(t, "pa", n, false, false, false), genPayload(t, "pb", n, false, false, false)
	case "next-line":
		pa, pb = genPayload(t, "pa", n, true, true, true), genPayload(t, "pb", n, true, true, true)
	default:
		pa, pb = genPayload(t, "pa", n, true, true, false), genPayload(t, "pb", n, true, true, false)
	}
	if form == "begin-end" {
		// a repeated ignore/begin inside a block is kept by pint as a control comment of the form (pinned by
		// upstream's TestReadContent/21,23), not payload: invisible between rules, content inside a scalar
		for _, p := range []*payload{&pa, &pb} {
			for i, l := range p.lines {
				if strings.Contains(l, "ignore/begin") {
					p.lines[i] = strings.Replace(l, "ignore/begin", "ignore/bogus", 1)
				}
			}
		}
	}
	// text of the neighbouring value lines makes a leak into the position search visible
	if rapid.Bool().Draw(t, "lookalike") {
		pa.lines[0] = rapid.SampledFrom([]string{"> 10 by (job)", "sum(foo) > 10", "{{ $labels.job }} now > 1", "by (job) bar"}).Draw(t, "lookalikeText")
	}
	for i := range pa.lines {
		for len(pa.lines[i]) < len(pb.lines[i]) {
			pa.lines[i] += " "
		}
		for len(pb.lines[i]) < len(pa.lines[i]) {
			pb.lines[i] += " "
		}
	}
	block := func(p payload, ind string) []string {
		var out []string
		switch form {
		case "line":
			for _, l := range p.lines {
				out = append(out, ind+l+" "+cLine)
			}
		case "next-line":
			for _, l := range p.lines {
				out = append(out, ind+cNext, ind+l)
			}
		default:
			out = append(out, ind+cBegin)
			for _, l := range p.lines {
				out = append(out, ind+l)
			}
			out = append(out, ind+cEnd)
		}
		return out
	}
	slot := rapid.SampledFrom([]string{"literal-expr", "folded-annotation", "dq-expr", "literal-expr", "all"}).Draw(t, "slot")
	build := func(p payload) string {
		var b []string
		add := func(l ...string) { b = append(b, l...) }
		in := func(name, ind string) []string {
			if slot == name || slot == "all" {
				return block(p, ind)
			}
			return nil
		}
		add("groups:", "- name: g", "  rules:", "  - alert: Foo", "    expr: |", "      sum(foo) by (job)")
		add(in("literal-expr", "      ")...)
		add("      > 10", "    for: 5m", "    annotations:", "      summary: >-", "        value is {{ $value }} for")
		add(in("folded-annotation", "        ")...)
		add("        {{ $labels.job }} now", "  - record: bar:sum", "    expr: \"sum(bar)")
		add(in("dq-expr", "      ")...)
		add("      by (job)\"")
		return strings.Join(b, "\n") + "\n"
	}
	return Case{A: build(pa), B: build(pb), Form: form, Rel: "replacement", Relaxed: rapid.IntRange(0, 3).Draw(t, "relaxed") == 0,
		Point: "in-scalar:" + slot, Payload: pa.class + " | " + pb.class, PintComment: pa.pint || pb.pint}
}

func knownClass(c Case) string {
	if c.PintComment {
		return "pint-comment-in-excluded-text"
	}
	return ""
}

func drive(t *testing.T, g func(*rapid.T) Case) {
	rec := vstat.New(t, prop)
	known := vstat.KnownClasses(prop)
	rapid.Check(t, func(rt *rapid.T) {
		c := g(rt)
		n, err := check(c)
		class := c.Form + "/" + c.Rel + "/" + c.Point
		if c.PintComment {
			class += "/pint-comment"
		}
		// non-trivial: the payload is not blank / plain comment, and there are rules around the block
		nontrivial := n >= 1 && c.Payload != "empty" && c.Payload != "spaces" && c.Payload != "plain-comment"
		rec.Case(class, nontrivial, c.A+"\x00"+c.B, func() any { return c })
		if err != nil {
			if id, ok := known[knownClass(c)]; ok {
				rec.KnownHit(id, c)
				return
			}
			rec.Fail(c, err)
			rt.Fatalf("%v\n--- A ---\n%s\n--- B ---\n%s", err, c.A, c.B)
		}
	})
}

func TestPropExcluded(t *testing.T) { drive(t, genCase) }

func TestPropExcludedInScalar(t *testing.T) { drive(t, genInScalarCase) }

func TestReplay(t *testing.T) {
	p := vstat.ReplayPath()
	if p == "" {
		t.Skip("VERIF_REPLAY not set")
	}
	if replayFuzz(t, p) {
		return
	}
	var c Case
	if err := vstat.LoadReplay(p, &c); err != nil {
		t.Fatal(err)
	}
	if _, err := check(c); err != nil {
		t.Fatalf("%v", err)
	}
}
