// C19 - relaxed mode finds the same rules as strict mode, wherever nested.
//
//	TestPropStrictVsRelaxed  differential: same bytes, strict parse vs relaxed parse
//	TestPropWrapper          metamorphic: relaxed(wrapper(X)) == shift(relaxed(X))
package c19

import (
	"errors"
	"fmt"
	"strings"
	"testing"

	"github.com/prometheus/common/model"
	"pgregory.net/rapid"

	"github.com/cloudflare/pint/internal/parser"
	"github.com/cloudflare/pint/verifharness/gen"
	"github.com/cloudflare/pint/verifharness/sig"
	"github.com/cloudflare/pint/verifharness/vstat"
)

const prop = "C19"

type Case struct {
	Kind    string `json:"kind"` // "strict-vs-relaxed" | "wrapper"
	Src     string `json:"src"`
	Wrapped string `json:"wrapped,omitempty"`
	DL      int    `json:"dl,omitempty"`
	DC      int    `json:"dc,omitempty"`
	Class   string `json:"class,omitempty"`
}

func parse(src string, strict bool) parser.File {
	return parser.NewParser(strict, parser.PrometheusSchema, model.UTF8Validation).Parse(strings.NewReader(src))
}

func strictValid(f parser.File) (bool, int) {
	if f.Error.Err != nil {
		return false, 0
	}
	n := 0
	for _, g := range f.Groups {
		if g.Error.Err != nil {
			return false, 0
		}
		for _, r := range g.Rules {
			if r.Error.Err != nil || (r.AlertingRule == nil && r.RecordingRule == nil) {
				return false, 0
			}
			n++
		}
	}
	return true, n
}

// known-finding classes -------------------------------------------------------

// knownClass names the listed structural class a failing case falls into ("" = none).
func knownClass(c Case) string {
	return ""
}

// oracles ---------------------------------------------------------------------

var errSkip = errors.New("precondition not met")

func checkStrictVsRelaxed(c Case) (nrules int, multiline bool, err error) {
	fs := parse(c.Src, true)
	ok, n := strictValid(fs)
	if !ok {
		return 0, false, errSkip
	}
	fr := parse(c.Src, false)
	if fr.Error.Err != nil {
		return n, false, fmt.Errorf("relaxed mode fails on a strict-valid file: %v", fr.Error)
	}
	a, b := sig.FromFile(fs), sig.FromFile(fr)
	for _, r := range a {
		for _, nd := range r.Nodes() {
			if len(nd.Pos) > 1 {
				multiline = true
			}
		}
	}
	if d := sig.Diff(a, b); d != "" {
		return n, multiline, fmt.Errorf("strict (A) and relaxed (B) disagree: %s", d)
	}
	if fs.TotalLines != fr.TotalLines {
		return n, multiline, fmt.Errorf("TotalLines differ: %d vs %d", fs.TotalLines, fr.TotalLines)
	}
	return n, multiline, nil
}

func checkWrapper(c Case) (nrules int, err error) {
	fb := parse(c.Src, false)
	fw := parse(c.Wrapped, false)
	if fb.Error.Err != nil {
		return 0, errSkip
	}
	base := sig.FromFile(fb)
	for _, r := range base {
		if r.Error != "" {
			return 0, errSkip
		}
	}
	if len(base) == 0 {
		return 0, errSkip
	}
	if fw.Error.Err != nil {
		return len(base), fmt.Errorf("wrapped document fails to parse in relaxed mode: %v", fw.Error)
	}
	want := make([]sig.Rule, len(base))
	for i, r := range base {
		want[i] = r.ShiftIn(c.Src, c.DL, c.DC)
	}
	// positions on empty lines: only the line is compared (see sig.CanonBlank)
	want = sig.CanonBlank(want, c.Wrapped)
	got := sig.CanonBlank(sig.FromFile(fw), c.Wrapped)
	if d := sig.Diff(want, got); d != "" {
		return len(base), fmt.Errorf("relaxed(wrapped) (B) != relaxed(base) shifted by %d lines, %d columns (A): %s", c.DL, c.DC, d)
	}
	return len(base), nil
}

func run(c Case) (nontrivial bool, err error) {
	switch c.Kind {
	case "strict-vs-relaxed":
		n, ml, err := checkStrictVsRelaxed(c)
		return n >= 2 && ml, err
	case "wrapper":
		n, err := checkWrapper(c)
		return n >= 1 && (c.DC > 0 || c.DL > 0), err
	}
	return false, fmt.Errorf("unknown case kind %q", c.Kind)
}

// generators ------------------------------------------------------------------

func styles() gen.StyleOpts {
	o := gen.AllStyles()
	// position defects are C06's subject; they cancel out here because both
	// parses share the position code, so all classes can stay on.
	o.BlankInScalar, o.DQEscapes, o.IndentInd = true, true, true
	o.CRLF, o.NoFinalNewline = true, true
	o.Aliases = true
	return o
}

func genStrictCase(t *rapid.T) Case {
	d := gen.GenDoc(t, 3, 4)
	s := gen.NewStyler(t, styles())
	src := s.Doc(d)
	return Case{Kind: "strict-vs-relaxed", Src: src, Class: "strict:" + s.Class()}
}

// locate finds (dl, dc) such that the wrapped text contains the base text's
// lines contiguously, each indented by dc (the first dc columns may hold a
// sequence dash).
func locate(base, wrapped string) (int, int, bool) {
	bl := strings.Split(strings.TrimRight(base, "\n"), "\n")
	wl := strings.Split(strings.TrimRight(wrapped, "\n"), "\n")
	for dl := 0; dl+len(bl) <= len(wl); dl++ {
		// candidate dc from the first line
		idx := strings.Index(wl[dl], bl[0])
		if idx < 0 || bl[0] == "" {
			continue
		}
		dc := idx
		ok := true
		for i, b := range bl {
			w := wl[dl+i]
			if b == "" {
				if strings.TrimSpace(w) != "" {
					ok = false
				}
				continue
			}
			if len(w) < dc || w[dc:] != b || strings.Trim(w[:dc], " -") != "" {
				ok = false
				break
			}
		}
		if ok {
			return dl, dc, true
		}
	}
	return 0, 0, false
}

func genWrapperCase(t *rapid.T) Case {
	used := map[string]int{}
	st := styles()
	st.CRLF, st.NoFinalNewline, st.DocStart = false, false, false
	// the three position-defect classes listed under C06 do not cancel out once
	// the text is re-parsed from inside a block scalar (different line table), so
	// they stay with C06.
	st.BlankInScalar, st.DQEscapes, st.IndentInd = false, false, false
	inScalar := rapid.IntRange(0, 5).Draw(t, "inScalar") == 0
	if inScalar {
		// trailing blank lines of the last block scalar would be clipped by the
		// enclosing "|" scalar, i.e. the embedded text would not be the same YAML
		st.KeepChomp, st.TrailingBlanks = false, false
	}
	s := gen.NewStyler(t, st)
	var inner *gen.Node
	var base string
	if rapid.Bool().Draw(t, "groupsBase") {
		d := gen.GenDoc(t, 2, 3)
		groups := &gen.Node{Kind: gen.SeqKind}
		for _, g := range d.Groups {
			groups.Items = append(groups.Items, s.Group(g))
		}
		s.Alias(groups)
		inner = &gen.Node{Kind: gen.MapKind, Pairs: []gen.Pair{{Key: gen.P("groups"), Val: groups}}}
		used["base-groups"]++
	} else {
		n := rapid.IntRange(1, 4).Draw(t, "nrules")
		var rules []gen.RuleSpec
		for i := 0; i < n; i++ {
			rules = append(rules, gen.GenRule(t, fmt.Sprintf("r%d", i)))
		}
		inner = s.RuleList(rules)
		inner.Inline = false
		used["base-list"]++
	}
	base = gen.Emit(inner)
	levels := rapid.IntRange(0, 4).Draw(t, "levels")
	seqOK := rapid.Bool().Draw(t, "seqOK")
	root := gen.Wrap(t, inner, levels, seqOK, used)
	wrapped := gen.Emit(root)
	// a block-scalar level: the whole wrapped YAML as the value of a key
	if inScalar {
		wrapped = gen.InBlockScalar(wrapped, rapid.IntRange(1, 4).Draw(t, "scalarInd"))
		used["yaml-in-scalar"]++
	}
	// extra documents before / after
	switch rapid.IntRange(0, 5).Draw(t, "docs") {
	case 0:
		wrapped = "---\nother: doc\nlist:\n  - a\n---\n" + wrapped
		used["doc-before"]++
	case 1:
		wrapped = wrapped + "---\nother: doc\n"
		used["doc-after"]++
	}
	dl, dc, ok := locate(base, wrapped)
	if !ok {
		t.Fatalf("generator bug: base not found inside wrapped\nBASE:\n%s\nWRAPPED:\n%s", base, wrapped)
	}
	keys := gen.SortedKeys(used)
	return Case{Kind: "wrapper", Src: base, Wrapped: wrapped, DL: dl, DC: dc,
		Class: fmt.Sprintf("wrapper:levels=%d:%s", levels, strings.Join(keys, ","))}
}

// properties ------------------------------------------------------------------

func drive(t *testing.T, g func(*rapid.T) Case) {
	rec := vstat.New(t, prop)
	known := vstat.KnownClasses(prop)
	rapid.Check(t, func(rt *rapid.T) {
		c := g(rt)
		nontrivial, err := run(c)
		if errors.Is(err, errSkip) {
			rec.Case("skipped:"+c.Kind, false, "", nil)
			rec.Count("precondition_skips", 1)
			return
		}
		rec.Case(c.Class, nontrivial, c.Src+"\x00"+c.Wrapped, func() any { return c })
		if err != nil {
			if id, ok := known[knownClass(c)]; ok {
				rec.KnownHit(id, c)
				return
			}
			rec.Fail(c, err)
			rt.Fatalf("%v\n--- src ---\n%s\n--- wrapped ---\n%s", err, c.Src, c.Wrapped)
		}
	})
}

func TestPropStrictVsRelaxed(t *testing.T) { drive(t, genStrictCase) }
func TestPropWrapper(t *testing.T)         { drive(t, genWrapperCase) }

func TestReplay(t *testing.T) {
	p := vstat.ReplayPath()
	if p == "" {
		t.Skip("VERIF_REPLAY not set")
	}
	var c Case
	if err := vstat.LoadReplay(p, &c); err != nil {
		t.Fatal(err)
	}
	if _, err := run(c); err != nil && !errors.Is(err, errSkip) {
		t.Fatalf("%v", err)
	}
}
