package c07

import (
	"bytes"
	"fmt"
	"io"
	"net"
	"net/http"
	"os"
	"os/exec"
	"path/filepath"
	"regexp"
	"strings"
	"testing"
	"time"

	"pgregory.net/rapid"

	"github.com/cloudflare/pint/verifharness/vstat"
)

// The watch layer: a snooze comment is a statement about wall-clock time, and `pint watch` is the one command that
// lives long enough for a snooze to run out while pint is running.  The real binary is started as a daemon on a rule
// file with a rule snoozed until a few seconds from now and an identical control rule; /metrics is read before the
// snooze expires (the targeted check must be silent on the snoozed rule only) and after (it must report on both).

type WatchCase struct {
	Form     string `json:"form"`      // snooze | file/snooze
	Check    string `json:"check"`     // what is snoozed: alerts/comparison | rule/label | promql/fragile ...
	Match    string `json:"match"`     // text after the date in the comment
	TimeFmt  string `json:"time_fmt"`  // layout of the date
	AheadSec int    `json:"ahead_sec"` // the snooze ends this many seconds after the daemon was started
	Expr     string `json:"expr"`
}

var (
	wMetricProblem = regexp.MustCompile(`(?m)^pint_problem\{([^}]*)\} `)
	wMetricLabel   = regexp.MustCompile(`(\w+)="((?:[^"\\]|\\.)*)"`)
	wMetricDone    = regexp.MustCompile(`(?m)^pint_problems \d`)
)

const watchCfg = `rule {
  match {
    kind = "alerting"
  }
  label "team" {
    required = true
    severity = "bug"
  }
  annotation "runbook_url" {
    required = true
    severity = "warning"
  }
}
`

type watchObs map[string]bool // "<rule name>|<reporter>"; "@<seconds>" = time of the last scan

var wMetricLastRun = regexp.MustCompile(`(?m)^pint_last_run_time_seconds ([0-9.e+]+)`)

func scrape(addr string) (watchObs, bool) {
	client := &http.Client{Timeout: 2 * time.Second, Transport: &http.Transport{DisableKeepAlives: true}}
	resp, err := client.Get("http://" + addr + "/metrics")
	if err != nil {
		return nil, false
	}
	b, _ := io.ReadAll(resp.Body)
	resp.Body.Close()
	if !wMetricDone.Match(b) {
		return nil, false
	}
	obs := watchObs{}
	if m := wMetricLastRun.FindSubmatch(b); m != nil {
		obs["@"+string(m[1])] = true
	}
	for _, m := range wMetricProblem.FindAllStringSubmatch(string(b), -1) {
		lbl := map[string]string{}
		for _, kv := range wMetricLabel.FindAllStringSubmatch(m[1], -1) {
			lbl[kv[1]] = kv[2]
		}
		obs[lbl["name"]+"|"+lbl["reporter"]] = true
	}
	return obs, true
}

var errWatchInconclusive = fmt.Errorf("inconclusive")

func runWatchCase(bin string, c WatchCase) error {
	dir, err := os.MkdirTemp("", "c07watch-")
	if err != nil {
		return errWatchInconclusive
	}
	defer os.RemoveAll(dir)
	_ = os.MkdirAll(filepath.Join(dir, "rules"), 0o755)
	l, err := net.Listen("tcp", "127.0.0.1:0")
	if err != nil {
		return errWatchInconclusive
	}
	addr := l.Addr().String()
	l.Close()

	// rule names are unique per run: metrics scraped from another process (two runs racing for one free port)
	// never look like ours
	nonce := fmt.Sprintf("%d_%d", os.Getpid(), time.Now().UnixNano()%1000000)
	snoozed, controlName := "Snoozed_"+nonce, "Control_"+nonce
	start := time.Now()
	until := start.Add(time.Duration(c.AheadSec) * time.Second)
	var stamp string
	switch c.TimeFmt {
	case "rfc3339-utc":
		stamp = until.UTC().Format(time.RFC3339)
	case "rfc3339-offset":
		stamp = until.In(time.FixedZone("x", 2*3600)).Format(time.RFC3339)
	default:
		stamp = until.UTC().Format("2006-01-02T15:04:05Z")
	}
	comment := fmt.Sprintf("# pint %s %s %s", c.Form, stamp, c.Match)
	var b strings.Builder
	if c.Form == "file/snooze" {
		// the file-level form silences the check on every rule of the file: the control rule lives in a second file
		b.WriteString(comment + "\n")
	}
	b.WriteString("groups:\n- name: g\n  rules:\n")
	if c.Form == "snooze" {
		b.WriteString("  " + comment + "\n")
	}
	b.WriteString("  - alert: " + snoozed + "\n    expr: " + c.Expr + "\n    annotations:\n      summary: snoozed rule\n")
	control := "groups:\n- name: c\n  rules:\n  - alert: " + controlName + "\n    expr: " + c.Expr + "\n    annotations:\n      summary: control rule\n"
	_ = os.WriteFile(filepath.Join(dir, "rules", "a.yml"), []byte(b.String()), 0o644)
	_ = os.WriteFile(filepath.Join(dir, "rules", "b.yml"), []byte(control), 0o644)
	_ = os.WriteFile(filepath.Join(dir, "cfg.hcl"), []byte(watchCfg), 0o644)

	cmd := exec.Command(bin, "--no-color", "--offline", "-s", "-l", "error", "-c", "cfg.hcl", "watch", "--interval=1s", "--listen="+addr, "--min-severity=info", "glob", "rules")
	cmd.Dir = dir
	var eb bytes.Buffer
	cmd.Stderr, cmd.Stdout = &eb, &eb
	if err := cmd.Start(); err != nil {
		return errWatchInconclusive
	}
	exited := make(chan struct{})
	go func() { _ = cmd.Wait(); close(exited) }()
	defer func() {
		_ = cmd.Process.Kill()
		<-exited
	}()
	alive := func() bool {
		select {
		case <-exited:
			return false
		default:
			return true
		}
	}
	key := func(rule string) string {
		if rule == "Snoozed" {
			return snoozed + "|" + c.Check
		}
		return controlName + "|" + c.Check
	}
	mine := func(obs watchObs) bool {
		for k := range obs {
			if strings.HasPrefix(k, controlName+"|") {
				return true
			}
		}
		return false
	}

	// phase 1: the first complete scan must be seen well before the snooze ends
	var first watchObs
	for first == nil {
		if !alive() || time.Now().After(until.Add(-1500*time.Millisecond)) {
			return errWatchInconclusive // too slow to observe the "before" state: nothing can be concluded
		}
		time.Sleep(100 * time.Millisecond)
		if obs, ok := scrape(addr); ok && mine(obs) {
			first = obs
		}
	}
	if !first[key("Control")] {
		return fmt.Errorf("generator bug: the control rule does not trigger %s: %v\n%s", c.Check, first, eb.String())
	}
	if first[key("Snoozed")] {
		return fmt.Errorf("`%s` is in the future (%ds after the daemon started) but %s is reported on the snoozed rule", comment, c.AheadSec, c.Check)
	}
	// phase 2: after the snooze ended the check must report on the snoozed rule.  Not reporting is only
	// conclusive once two scans that started after the expiry have finished (pint_last_run_time_seconds is
	// set when a scan starts its checks); a daemon too slow for that within the grace period is inconclusive.
	deadline := until.Add(40 * time.Second)
	time.Sleep(time.Until(until.Add(2500 * time.Millisecond)))
	scansAfter := map[string]bool{}
	for {
		if !alive() {
			return errWatchInconclusive
		}
		if obs, ok := scrape(addr); ok && mine(obs) {
			if obs[key("Snoozed")] {
				return nil
			}
			for k := range obs {
				var ts float64
				if _, err := fmt.Sscanf(k, "@%g", &ts); err == nil && ts > float64(until.Unix())+1.5 {
					scansAfter[k] = true
				}
			}
			if len(scansAfter) >= 3 {
				return fmt.Errorf("`%s` expired %.0fs ago while `pint watch` kept running (%d scans since), but %s is still not reported on the snoozed rule (control rule reported: %v)",
					comment, time.Since(until).Seconds(), len(scansAfter), c.Check, obs[key("Control")])
			}
		}
		if time.Now().After(deadline) {
			return errWatchInconclusive
		}
		time.Sleep(300 * time.Millisecond)
	}
}

func genWatchCase(t *rapid.T) WatchCase {
	c := WatchCase{
		Form:     rapid.SampledFrom([]string{"snooze", "snooze", "file/snooze"}).Draw(t, "form"),
		TimeFmt:  rapid.SampledFrom([]string{"rfc3339-utc", "rfc3339-offset", "plain-z"}).Draw(t, "timefmt"),
		AheadSec: rapid.IntRange(5, 8).Draw(t, "ahead"),
	}
	switch rapid.IntRange(0, 2).Draw(t, "check") {
	case 0:
		c.Check, c.Match, c.Expr = "alerts/comparison", "alerts/comparison", "up"
	case 1:
		c.Check, c.Match, c.Expr = "rule/label", rapid.SampledFrom([]string{"rule/label", "rule/label(team:true)"}).Draw(t, "match"), "up == 0"
	default:
		c.Check, c.Match, c.Expr = "alerts/annotation", rapid.SampledFrom([]string{"alerts/annotation", "alerts/annotation(runbook_url:true)"}).Draw(t, "match"), "up == 0"
	}
	return c
}

// TestPropWatchSnoozeExpiry runs the daemon cases (a handful per shard: each takes about 12 s of wall clock).
func TestPropWatchSnoozeExpiry(t *testing.T) {
	bin := os.Getenv("VERIF_PINT_BIN")
	if bin == "" {
		t.Skip("VERIF_PINT_BIN not set")
	}
	rec := vstat.New(t, prop)
	rapid.Check(t, func(rt *rapid.T) {
		c := genWatchCase(rt)
		err := runWatchCase(bin, c)
		if err == errWatchInconclusive {
			rec.Case("watch/inconclusive", false, fmt.Sprint(c), nil)
			rec.Count("watch_runs_inconclusive", 1)
			return
		}
		rec.Case("watch/"+c.Form+"/"+c.Check, true, fmt.Sprint(c), func() any { return c })
		if err != nil {
			rec.Fail(c, err)
			rt.Fatalf("%v", err)
		}
	})
}
