// C07 - control comments suppress exactly the targeted check on the targeted rules.
//
// Two-run metamorphic relation.  File B carries an inert comment ("# note")
// where file A carries the pint control comment, so both have identical line
// numbering.  Oracle: problems(A) == problems(B) minus the slice the comment is
// documented to remove (nothing for expired snoozes and for rule-level comments
// aimed at a check from a `locked` block).
package c07

import (
	"errors"
	"fmt"
	"runtime/debug"
	"slices"
	"sort"
	"strings"
	"testing"

	"pgregory.net/rapid"

	"github.com/cloudflare/pint/verifharness/gen"
	"github.com/cloudflare/pint/verifharness/lint"
	"github.com/cloudflare/pint/verifharness/vstat"
)

const prop = "C07"

type Case struct {
	A         string `json:"a"` // file with the control comment
	B         string `json:"b"` // same file with an inert comment in its place
	Config    string `json:"config"`
	Form      string `json:"form"`      // disable | snooze-future | snooze-past | file/disable | file/snooze-future | file/snooze-past
	Spelling  string `json:"spelling"`  // name | string
	Placement string `json:"placement"` // above | trailing | between | top
	Match     string `json:"match"`     // the text after disable/snooze
	Reporter  string `json:"reporter"`
	Check     string `json:"check"`
	Entry     int    `json:"entry"`  // targeted entry index (-1 for file-level forms)
	Locked    bool   `json:"locked"` // the targeted check comes from a locked block
	Relaxed   bool   `json:"relaxed"`
	NEntries  int    `json:"n_entries"` // number of rules in the case's own file (entries after that belong to the fixed second file)
}

var errSkip = errors.New("precondition not met")

func problems(src, cfg string, relaxed bool) ([]lint.TaggedProblem, error) {
	// a second, fixed file is always linted together with the case's file: a comment in one file must never
	// change what is reported for another file (files are discovered in name order: rules.yml, then zz_other.yml)
	res := lint.Files([]lint.File{{Name: "rules.yml", Content: []byte(src)}, {Name: "zz_other.yml", Content: []byte(otherFile)}},
		lint.Options{Relaxed: relaxed, ConfigHCL: cfg, SkipChecks: true, KeepDir: true})
	defer res.Cleanup()
	if res.CfgErr != nil {
		return nil, fmt.Errorf("config rejected: %v", res.CfgErr)
	}
	if res.FindErr != nil {
		return nil, res.FindErr
	}
	if res.Panicked() {
		return nil, fmt.Errorf("panic: %v", res.Panic)
	}
	for _, e := range res.Entries {
		if e.PathError != nil || e.Rule.Error.Err != nil {
			return nil, errSkip
		}
	}
	var out []lint.TaggedProblem
	var perr error
	func() {
		defer func() {
			if r := recover(); r != nil {
				perr = fmt.Errorf("panic in checks: %v\n%s", r, debug.Stack())
			}
		}()
		out = lint.Tagged(res.Cfg, res.Entries, lint.Options{}, res.Dir)
	}()
	return out, perr
}

const otherFile = `groups:
- name: other
  rules:
  - alert: OtherAlwaysFiring
    expr: foo
    labels:
      severity: page
    annotations:
      text: "{{ $labels.missing }} on {{ $labels.instance }}"
  - alert: OtherAgg
    expr: sum(rate(errors_total[5m])) without (instance) > 0
    for: 1m
    annotations:
      text: "{{ $labels.instance }} broken"
  - record: other:sum
    expr: sum(foo) by (instance)
`

// keys: the problems as a sorted set.  The same check can be enabled twice for one rule (two rule {} blocks
// with an identical definition plus a rule { enable = [...] } block); pint's Summary drops a report that is
// equal to one it already holds, so multiplicity is not observable.
func keys(ps []lint.TaggedProblem) []string {
	out := make([]string, 0, len(ps))
	for _, p := range ps {
		out = append(out, p.Key())
	}
	sort.Strings(out)
	return slices.Compact(out)
}

// expected computes P(B) minus the slice.
func expected(c Case, pb []lint.TaggedProblem) (want []lint.TaggedProblem, slice int) {
	noEffect := strings.HasSuffix(c.Form, "snooze-past") || (c.Locked && !strings.HasPrefix(c.Form, "file/")) || c.Spelling == "near-miss"
	for _, p := range pb {
		hit := false
		if !noEffect {
			inScope := (strings.HasPrefix(c.Form, "file/") && p.Entry < c.NEntries) || (!strings.HasPrefix(c.Form, "file/") && p.Entry == c.Entry)
			if inScope {
				// a comment naming the reporter silences every instance of it; one naming a
				// check instance (its String()) silences that instance
				hit = p.Reporter == c.Match || p.Check == c.Match
			}
		}
		if hit {
			slice++
			continue
		}
		want = append(want, p)
	}
	return want, slice
}

func check(c Case) (nprob, slice int, err error) {
	pa, err := problems(c.A, c.Config, c.Relaxed)
	if err != nil {
		return 0, 0, err
	}
	pb, err := problems(c.B, c.Config, c.Relaxed)
	if err != nil {
		return 0, 0, err
	}
	want, slice := expected(c, pb)
	ka, kw := keys(pa), keys(want)
	if strings.Join(ka, "\n") != strings.Join(kw, "\n") {
		return len(pb), slice, fmt.Errorf("%s %q (%s, %s) on entry %d: problems with the comment differ from baseline minus the targeted slice (%d problems)\n  missing (should still be reported): %v\n  extra (should have been removed, or new): %v",
			c.Form, c.Match, c.Spelling, c.Placement, c.Entry, slice, diff(kw, ka), diff(ka, kw))
	}
	return len(pb), slice, nil
}

func diff(a, b []string) []string {
	m := map[string]int{}
	for _, x := range b {
		m[x]++
	}
	var out []string
	for _, x := range a {
		if m[x] > 0 {
			m[x]--
			continue
		}
		out = append(out, x)
	}
	return out
}

// configuration ---------------------------------------------------------------

type block struct {
	reporter string
	hcl      string // without the locked line
}

var blockPool = []block{
	{"rule/label", "label \"team\" {\n    required = true\n    severity = \"bug\"\n  }"},
	{"rule/label", "label \"severity\" {\n    value = \"(warning|critical)\"\n    required = true\n  }"},
	{"alerts/annotation", "match {\n    kind = \"alerting\"\n  }\n  annotation \"summary\" {\n    required = true\n    severity = \"bug\"\n  }"},
	{"alerts/annotation", "match {\n    kind = \"alerting\"\n  }\n  annotation \"runbook_url\" {\n    required = true\n  }"},
	{"rule/for", "match {\n    kind = \"alerting\"\n  }\n  for {\n    min = \"2m\"\n    max = \"30m\"\n    severity = \"warning\"\n  }"},
	{"rule/for", "match {\n    kind = \"alerting\"\n  }\n  keep_firing_for {\n    min = \"1h\"\n  }"},
	{"rule/name", "match {\n    kind = \"recording\"\n  }\n  name \"rec:.+\" {\n    severity = \"bug\"\n  }"},
	{"rule/name", "match {\n    kind = \"alerting\"\n  }\n  name \"[A-Z][a-z]+Alert\" {\n  }"},
	{"promql/aggregate", "aggregate \".+\" {\n    keep = [\"job\"]\n    severity = \"bug\"\n  }"},
	{"promql/aggregate", "aggregate \".+\" {\n    strip = [\"instance\"]\n  }"},
	{"rule/reject", "reject \".*(prod|page).*\" {\n    label_values = true\n  }"},
	{"rule/reject", "reject \".* +.*\" {\n    annotation_values = true\n    label_keys = true\n  }"},
	{"rule/report", "report {\n    comment = \"no rules here\"\n    severity = \"warning\"\n  }"},
}

// genConfig draws a config with at most one block per reporter kind, so that
// "locked" is a function of the reporter.
func genConfig(t *rapid.T, allowLocked bool) (string, map[string]bool) {
	var b strings.Builder
	locked := map[string]bool{}
	used := map[string]bool{}
	n := rapid.IntRange(2, 6).Draw(t, "nblocks")
	type twiceBlock struct {
		hcl    string
		locked bool
	}
	var twice []twiceBlock
	for i := 0; i < n; i++ {
		bl := rapid.SampledFrom(blockPool).Draw(t, fmt.Sprintf("block%d", i))
		if used[bl.reporter] {
			continue
		}
		used[bl.reporter] = true
		lk := allowLocked && rapid.IntRange(0, 3).Draw(t, fmt.Sprintf("locked%d", i)) == 0
		locked[bl.reporter] = lk
		b.WriteString("rule {\n")
		if lk {
			b.WriteString("  locked = true\n")
		}
		b.WriteString("  " + bl.hcl + "\n}\n")
		// the very same check defined once more in a second block, with its own locked flag: pint runs it once,
		// and a rule-level comment must not switch it off when either copy is locked
		if rapid.IntRange(0, 3).Draw(t, fmt.Sprintf("twice%d", i)) == 0 {
			lk2 := allowLocked && rapid.IntRange(0, 1).Draw(t, fmt.Sprintf("locked%db", i)) == 0
			locked[bl.reporter] = lk || lk2
			twice = append(twice, twiceBlock{bl.hcl, lk2})
		}
	}
	for _, tb := range twice {
		b.WriteString("rule {\n")
		if tb.locked {
			b.WriteString("  locked = true\n")
		}
		b.WriteString("  " + tb.hcl + "\n}\n")
	}
	// rule { enable = [...] } blocks (optionally with the check disabled globally): a check switched on
	// this way must still obey rule-level control comments
	reporters := []string{"alerts/comparison", "alerts/template", "alerts/for", "promql/fragile", "promql/regexp", "promql/impossible",
		"rule/label", "rule/name", "rule/for", "alerts/annotation", "promql/aggregate", "rule/reject", "rule/report"}
	if rapid.IntRange(0, 2).Draw(t, "enableBlock") == 0 {
		var globally []string
		k := rapid.IntRange(1, 3).Draw(t, "nenable")
		var names []string
		for i := 0; i < k; i++ {
			r := rapid.SampledFrom(reporters).Draw(t, fmt.Sprintf("enable%d", i))
			names = append(names, fmt.Sprintf("%q", r))
			if rapid.Bool().Draw(t, fmt.Sprintf("enableAndDisabled%d", i)) {
				globally = append(globally, fmt.Sprintf("%q", r))
			}
		}
		b.WriteString("rule {\n  enable = [" + strings.Join(names, ", ") + "]\n}\n")
		if len(globally) > 0 {
			b.WriteString("checks {\n  disabled = [" + strings.Join(globally, ", ") + "]\n}\n")
		}
	}
	return b.String(), locked
}

// documents -------------------------------------------------------------------

func styles() gen.StyleOpts {
	o := gen.AllStyles()
	o.DocStart = false
	return o
}

type built struct {
	root   *gen.Node
	groups []*gen.Node // group mapping nodes
	rules  [][]*gen.Node
	seqs   []*gen.Node
}

func build(t *rapid.T, s *gen.Styler, d gen.DocSpec) built {
	var b built
	groups := &gen.Node{Kind: gen.SeqKind}
	for _, g := range d.Groups {
		gn := s.Group(g)
		groups.Items = append(groups.Items, gn)
		b.groups = append(b.groups, gn)
		for _, p := range gn.Pairs {
			if p.Key.Lines[0] == "rules" {
				b.seqs = append(b.seqs, p.Val)
				b.rules = append(b.rules, p.Val.Items)
			}
		}
	}
	b.root = &gen.Node{Kind: gen.MapKind, Pairs: []gen.Pair{{Key: gen.P("groups"), Val: groups}}}
	return b
}

func genCase(t *rapid.T) Case {
	fileLevel := rapid.IntRange(0, 3).Draw(t, "fileLevel") == 0
	cfg, locked := genConfig(t, !fileLevel)
	d := gen.GenDoc(t, 2, 3)
	s := gen.NewStyler(t, styles())
	b := build(t, s, d)
	base := gen.Emit(b.root)
	relaxed := rapid.IntRange(0, 4).Draw(t, "relaxed") == 0
	pb, err := problems(base, cfg, relaxed)
	if err != nil && strings.Contains(err.Error(), "config rejected") {
		t.Fatalf("generator bug: %v\n%s", err, cfg)
	}
	if err != nil || len(pb) == 0 {
		return Case{} // trivial: nothing reported (or the vocabulary produced a parse error)
	}
	// pick the reporter first so that rare reporters are targeted as often as frequent ones
	nOwn := 0
	for _, rs := range b.rules {
		nOwn += len(rs)
	}
	byRep := map[string][]lint.TaggedProblem{}
	var reps []string
	for _, p := range pb {
		if p.Entry >= nOwn {
			continue // problems of the fixed second file are never targeted
		}
		if _, ok := byRep[p.Reporter]; !ok {
			reps = append(reps, p.Reporter)
		}
		byRep[p.Reporter] = append(byRep[p.Reporter], p)
	}
	if len(reps) == 0 {
		return Case{}
	}
	sort.Strings(reps)
	target := rapid.SampledFrom(byRep[rapid.SampledFrom(reps).Draw(t, "targetReporter")]).Draw(t, "target")
	c := Case{Config: cfg, Reporter: target.Reporter, Check: target.Check, Entry: target.Entry, Locked: locked[target.Reporter], Relaxed: relaxed, NEntries: nOwn}
	c.Spelling = rapid.SampledFrom([]string{"name", "name", "name", "string", "string", "near-miss"}).Draw(t, "spelling")
	c.Match = target.Reporter
	switch c.Spelling {
	case "string":
		c.Match = target.Check
	case "near-miss":
		// not the name of any check: a strict prefix or an extension of the real name - must change nothing
		base := rapid.SampledFrom([]string{target.Reporter, target.Check}).Draw(t, "nearBase")
		if rapid.Bool().Draw(t, "nearPrefix") {
			c.Match = base[:len(base)-1]
		} else {
			c.Match = base + "x"
		}
	}
	if fileLevel {
		c.Form = rapid.SampledFrom([]string{"file/disable", "file/snooze-future", "file/snooze-past"}).Draw(t, "form")
		c.Entry = -1
	} else {
		c.Form = rapid.SampledFrom([]string{"disable", "disable", "snooze-future", "snooze-past"}).Draw(t, "form")
	}
	ts := func(future bool) string {
		y := "2000"
		if future {
			y = "2099"
		}
		if rapid.Bool().Draw(t, "rfc3339") {
			return y + "-01-01T00:00:00Z"
		}
		return y + "-01-01"
	}
	var text string
	switch c.Form {
	case "disable":
		text = "pint disable " + c.Match
	case "snooze-future":
		text = "pint snooze " + ts(true) + " " + c.Match
	case "snooze-past":
		text = "pint snooze " + ts(false) + " " + c.Match
	case "file/disable":
		text = "pint file/disable " + c.Match
	case "file/snooze-future":
		text = "pint file/snooze " + ts(true) + " " + c.Match
	case "file/snooze-past":
		text = "pint file/snooze " + ts(false) + " " + c.Match
	}
	// locate the targeted rule node (entries are rules in document order)
	var flat []*gen.Node
	var flatSeq []*gen.Node
	var flatIdx []int
	for gi, rs := range b.rules {
		for ri, r := range rs {
			flat = append(flat, r)
			flatSeq = append(flatSeq, b.seqs[gi])
			flatIdx = append(flatIdx, ri)
		}
	}
	ti := target.Entry
	if fileLevel {
		ti = rapid.IntRange(0, len(flat)-1).Draw(t, "anchorRule")
	}
	if ti >= len(flat) {
		return Case{}
	}
	rule, seq, idx := flat[ti], flatSeq[ti], flatIdx[ti]
	// an older control comment that is already on the rule in BOTH files: an expired snooze of the
	// targeted check, or a comment aimed at another check - neither may change what the new comment does
	if !fileLevel && rapid.IntRange(0, 2).Draw(t, "preexisting") == 0 {
		other := rapid.SampledFrom([]string{"promql/rate", "alerts/count", "promql/regexp", "rule/link"}).Draw(t, "preOther")
		pre := rapid.SampledFrom([]string{
			"# pint snooze 2000-01-01 " + c.Match,
			"# pint snooze 2001-02-03T04:05:06Z " + target.Reporter,
			"# pint disable " + other,
			"# pint snooze 2099-01-01 " + other,
		}).Draw(t, "preComment")
		if rapid.Bool().Draw(t, "preAbove") || len(rule.Pairs) < 2 {
			for len(seq.ItemBefore) <= idx {
				seq.ItemBefore = append(seq.ItemBefore, nil)
			}
			seq.ItemBefore[idx] = append(append([]string{}, seq.ItemBefore[idx]...), pre)
		} else {
			pi := rapid.IntRange(1, len(rule.Pairs)-1).Draw(t, "preAt")
			rule.Pairs[pi].Before = append(append([]string{}, rule.Pairs[pi].Before...), pre)
		}
	}
	placements := []string{"above", "between", "trailing", "between-in-map"}
	if fileLevel {
		placements = []string{"top", "above", "between"}
	}
	c.Placement = rapid.SampledFrom(placements).Draw(t, "placement")
	render := func(comment string) string {
		// apply, emit, undo
		switch c.Placement {
		case "top":
			old := b.root.Pairs[0].Before
			b.root.Pairs[0].Before = append([]string{"# " + comment}, old...)
			defer func() { b.root.Pairs[0].Before = old }()
		case "above":
			for len(seq.ItemBefore) <= idx {
				seq.ItemBefore = append(seq.ItemBefore, nil)
			}
			old := seq.ItemBefore[idx]
			seq.ItemBefore[idx] = append(append([]string{}, old...), "# "+comment)
			defer func() { seq.ItemBefore[idx] = old }()
		case "between-in-map":
			// own line between two entries of a block-style labels / annotations mapping
			var maps []*gen.Node
			for _, p := range rule.Pairs {
				if p.Val.Kind == gen.MapKind && !p.Val.Flow && len(p.Val.Pairs) >= 2 {
					maps = append(maps, p.Val)
				}
			}
			if len(maps) == 0 {
				return ""
			}
			m := maps[rapid.IntRange(0, len(maps)-1).Draw(t, "mapAt")]
			pi := rapid.IntRange(1, len(m.Pairs)-1).Draw(t, "mapPairAt")
			old := m.Pairs[pi].Before
			m.Pairs[pi].Before = append(append([]string{}, old...), "# "+comment)
			defer func() { m.Pairs[pi].Before = old }()
		case "between":
			if len(rule.Pairs) < 2 {
				return ""
			}
			pi := rapid.IntRange(1, len(rule.Pairs)-1).Draw(t, "betweenAt")
			old := rule.Pairs[pi].Before
			rule.Pairs[pi].Before = append(append([]string{}, old...), "# "+comment)
			defer func() { rule.Pairs[pi].Before = old }()
		case "trailing":
			// a rule line holding a complete single-line scalar
			var cands []*gen.Node
			for _, p := range rule.Pairs {
				v := p.Val
				if v.Kind == gen.ScalarKind && len(v.Lines) == 1 && (v.Style == gen.Plain || v.Style == gen.SingleQ || v.Style == gen.DoubleQ) {
					cands = append(cands, v)
				}
				// `labels: # comment` / `annotations: # comment`: the value (a block mapping) starts on the next line
				if v.Kind == gen.MapKind && !v.Flow && len(v.Pairs) > 0 {
					cands = append(cands, v)
				}
			}
			if len(cands) == 0 {
				return ""
			}
			v := cands[rapid.IntRange(0, len(cands)-1).Draw(t, "trailingAt")]
			old := v.LineComment
			v.LineComment = comment
			defer func() { v.LineComment = old }()
		}
		return gen.Emit(b.root)
	}
	// both renders must consume the same draws: draw positions once via a tiny cache
	c.A = renderTwice(t, render, text, &c.B)
	// line endings: file-level control comments are read from raw lines, which still hold the line break
	if rapid.IntRange(0, 3).Draw(t, "crlf") == 0 {
		c.A, c.B = strings.ReplaceAll(c.A, "\n", "\r\n"), strings.ReplaceAll(c.B, "\n", "\r\n")
	}
	if rapid.IntRange(0, 5).Draw(t, "nofinalnl") == 0 {
		c.A, c.B = strings.TrimRight(c.A, "\r\n"), strings.TrimRight(c.B, "\r\n")
	}
	return c
}

// renderTwice renders with the pint comment and with an inert comment using
// the same placement draws (rapid draws happen in the first call only).
func renderTwice(t *rapid.T, render func(string) string, text string, b *string) string {
	// The render closure draws placement indices; to reuse them we render A
	// first, then derive B from A by replacing the unique comment text.
	a := render(text)
	if a == "" {
		return ""
	}
	marker := "# " + text
	if strings.Count(a, marker) != 1 {
		return ""
	}
	*b = strings.Replace(a, marker, "# note: nothing to see", 1)
	return a
}

func drive(t *testing.T) {
	rec := vstat.New(t, prop)
	known := vstat.KnownClasses(prop)
	rapid.Check(t, func(rt *rapid.T) {
		c := genCase(rt)
		if c.A == "" {
			rec.Case("skipped", false, "", nil)
			rec.Count("precondition_skips", 1)
			return
		}
		nprob, slice, err := check(c)
		if errors.Is(err, errSkip) {
			rec.Case("skipped", false, "", nil)
			rec.Count("precondition_skips", 1)
			return
		}
		class := fmt.Sprintf("%s/%s/%s/%s", c.Reporter, c.Form, c.Spelling, c.Placement)
		if c.Locked {
			class += "/locked"
		}
		mustChangeNothing := strings.HasSuffix(c.Form, "snooze-past") || (c.Locked && !strings.HasPrefix(c.Form, "file/")) || c.Spelling == "near-miss"
		nontrivial := nprob >= 2 && (slice > 0 || mustChangeNothing)
		rec.Case(class, nontrivial, c.A+"\x00"+c.Config, func() any { return c })
		if err != nil {
			if id, ok := known[knownClass(c)]; ok {
				rec.KnownHit(id, c)
				return
			}
			rec.Fail(c, err)
			rt.Fatalf("%v\n--- config ---\n%s\n--- A ---\n%s", err, c.Config, c.A)
		}
	})
}

// knownClass: the structural classes of listed findings.
//
//	crlf-rule-level-comment  the file has CRLF line endings and the control comment is a rule-level one
//	                         (disable / snooze): yaml.v3 loses or re-attaches comments in some CRLF layouts
//	                         (a comment above a list item whose mapping holds another comment), so pint
//	                         never sees the control comment.  File-level forms are read by pint's own line
//	                         reader and stay judged.
func knownClass(c Case) string {
	if strings.Contains(c.A, "\r\n") && !strings.HasPrefix(c.Form, "file/") {
		return "crlf-rule-level-comment"
	}
	return ""
}

func TestPropComments(t *testing.T) { drive(t) }

func TestReplay(t *testing.T) {
	p := vstat.ReplayPath()
	if p == "" {
		t.Skip("VERIF_REPLAY not set")
	}
	var c Case
	if err := vstat.LoadReplay(p, &c); err != nil {
		t.Fatal(err)
	}
	if _, _, err := check(c); err != nil && !errors.Is(err, errSkip) {
		t.Fatalf("%v", err)
	}
}
