// Package vstat is the evidence/replay plumbing shared by every property
// package of the harness.
//
// A test creates one Recorder per Test function.  For every generated case it
// calls Case(class, nontrivial, key, sample); on an oracle failure it calls
// Fail(case, err) *before* failing the rapid property, so that the last
// failing execution (= the shrunk one, rapid re-runs the minimal case last)
// is what the driver finds in VERIF_OUT.  On test cleanup the recorder writes
// a stats file that ./check folds into evidence/<ID>.json.
//
// Nothing here draws randomness or reads the clock for a decision.
package vstat

import (
	"encoding/binary"
	"encoding/json"
	"fmt"
	"hash/fnv"
	"os"
	"path/filepath"
	"sort"
	"strconv"
	"strings"
	"sync"
	"testing"
)

const (
	maxSamples      = 12
	maxHashesPerRun = 100000
)

// Root is the /verif directory (overridable for scratch runs).
func Root() string {
	if v := os.Getenv("VERIF_ROOT"); v != "" {
		return v
	}
	return "/verif"
}

// OutDir is where stats / lastfail files go; empty = do not write.
func OutDir() string { return os.Getenv("VERIF_OUT") }

// Tier is "quick" (default) or "thorough".
func Tier() string {
	if os.Getenv("VERIF_TIER") == "thorough" {
		return "thorough"
	}
	return "quick"
}

// Scale picks a size by tier.
func Scale(quick, thorough int) int {
	if Tier() == "thorough" {
		return thorough
	}
	return quick
}

// EnvInt reads an integer environment variable with a default.
func EnvInt(name string, def int) int {
	if v := os.Getenv(name); v != "" {
		if n, err := strconv.Atoi(v); err == nil {
			return n
		}
	}
	return def
}

// Shard returns (index, count) of this process among the driver's shards.
func Shard() (int, int) {
	return EnvInt("VERIF_SHARD", 0), max(1, EnvInt("VERIF_SHARDS", 1))
}

type Recorder struct {
	mu         sync.Mutex
	prop       string
	test       string
	evals      int64
	nontrivial int64
	classes    map[string]int64 // all classes
	ntClasses  map[string]int64 // non-trivial classes
	hashes     map[uint64]struct{}
	hashCapHit bool
	counters   map[string]int64
	samples    []any
	sampleCls  map[string]int
	knownHits  map[string]int64
	knownSeen  map[string]any
}

// New creates a recorder and registers its flush on t.Cleanup.
func New(t testing.TB, prop string) *Recorder {
	r := &Recorder{
		prop:      prop,
		test:      t.Name(),
		classes:   map[string]int64{},
		ntClasses: map[string]int64{},
		hashes:    map[uint64]struct{}{},
		counters:  map[string]int64{},
		sampleCls: map[string]int{},
		knownHits: map[string]int64{},
		knownSeen: map[string]any{},
	}
	t.Cleanup(r.Flush)
	return r
}

func hashKey(s string) uint64 {
	h := fnv.New64a()
	h.Write([]byte(s))
	return h.Sum64()
}

// Case records one generated case.  class is a coarse signature (operator
// set, style, shape ...), key identifies the case itself (used only for
// distinct counting; pass the rendered input), sample is called lazily when
// the recorder wants to keep this case as an evidence sample.
func (r *Recorder) Case(class string, nontrivial bool, key string, sample func() any) {
	r.mu.Lock()
	defer r.mu.Unlock()
	r.evals++
	r.classes[class]++
	if !nontrivial {
		return
	}
	r.nontrivial++
	r.ntClasses[class]++
	if len(r.hashes) < maxHashesPerRun {
		r.hashes[hashKey(key)] = struct{}{}
	} else {
		r.hashCapHit = true
	}
	if sample != nil && len(r.samples) < maxSamples && r.sampleCls[class] < 2 {
		r.sampleCls[class]++
		r.samples = append(r.samples, sample())
	}
}

// Count bumps a free-form counter that ends up in the evidence.
func (r *Recorder) Count(name string, n int64) {
	r.mu.Lock()
	r.counters[name] += n
	r.mu.Unlock()
}

// KnownHit records that a generated case hit a listed known finding (the
// oracle failed, and the failure falls inside the finding's predicate).
func (r *Recorder) KnownHit(id string, c any) {
	r.mu.Lock()
	r.knownHits[id]++
	if _, ok := r.knownSeen[id]; !ok {
		r.knownSeen[id] = c
	}
	r.mu.Unlock()
}

type failFile struct {
	Property string `json:"property"`
	Test     string `json:"test"`
	Error    string `json:"error"`
	Case     any    `json:"case"`
}

// Fail stores the failing case; call it right before t.Fatalf.  The file is
// overwritten on every call so the last one (rapid's minimal re-run) wins.
func (r *Recorder) Fail(c any, err error) {
	dir := OutDir()
	if dir == "" {
		return
	}
	shard, _ := Shard()
	p := filepath.Join(dir, fmt.Sprintf("lastfail-%s-%d.json", sanitize(r.test), shard))
	b, jerr := json.MarshalIndent(failFile{Property: r.prop, Test: r.test, Error: err.Error(), Case: c}, "", " ")
	if jerr != nil {
		b = []byte(fmt.Sprintf(`{"property":%q,"test":%q,"error":%q,"case":"unmarshalable: %s"}`, r.prop, r.test, err.Error(), jerr))
	}
	_ = os.WriteFile(p, b, 0o644)
}

func sanitize(s string) string {
	out := []byte(s)
	for i, c := range out {
		if !(c >= 'a' && c <= 'z' || c >= 'A' && c <= 'Z' || c >= '0' && c <= '9') {
			out[i] = '_'
		}
	}
	return string(out)
}

type statsFile struct {
	Property   string           `json:"property"`
	Test       string           `json:"test"`
	Shard      int              `json:"shard"`
	Evals      int64            `json:"evaluations"`
	Nontrivial int64            `json:"nontrivial"`
	Classes    map[string]int64 `json:"classes"`
	NTClasses  map[string]int64 `json:"nontrivial_classes"`
	Counters   map[string]int64 `json:"counters"`
	Samples    []any            `json:"samples"`
	KnownHits  map[string]int64 `json:"known_hits"`
	HashCapHit bool             `json:"hash_cap_hit"`
	HashFile   string           `json:"hash_file"`
}

// Flush writes the stats file (idempotent enough: last write wins).
func (r *Recorder) Flush() {
	dir := OutDir()
	if dir == "" {
		return
	}
	r.mu.Lock()
	defer r.mu.Unlock()
	shard, _ := Shard()
	base := fmt.Sprintf("%s-%d", sanitize(r.test), shard)
	hs := make([]uint64, 0, len(r.hashes))
	for h := range r.hashes {
		hs = append(hs, h)
	}
	sort.Slice(hs, func(i, j int) bool { return hs[i] < hs[j] })
	hb := make([]byte, 8*len(hs))
	for i, h := range hs {
		binary.LittleEndian.PutUint64(hb[8*i:], h)
	}
	hashFile := filepath.Join(dir, "hashes-"+base+".bin")
	_ = os.WriteFile(hashFile, hb, 0o644)
	sf := statsFile{
		Property: r.prop, Test: r.test, Shard: shard,
		Evals: r.evals, Nontrivial: r.nontrivial,
		Classes: topN(r.classes, 60), NTClasses: topN(r.ntClasses, 60),
		Counters: r.counters, Samples: r.samples, KnownHits: r.knownHits,
		HashCapHit: r.hashCapHit, HashFile: hashFile,
	}
	sf.Counters["distinct_classes_total"] = int64(len(r.classes))
	sf.Counters["distinct_nontrivial_classes_total"] = int64(len(r.ntClasses))
	b, err := json.Marshal(sf)
	if err != nil {
		// samples must never break the evidence: drop them.
		sf.Samples = []any{fmt.Sprintf("samples not serialisable: %v", err)}
		b, _ = json.Marshal(sf)
	}
	_ = os.WriteFile(filepath.Join(dir, "stats-"+base+".json"), b, 0o644)
}

func topN(m map[string]int64, n int) map[string]int64 {
	if len(m) <= n {
		return m
	}
	type kv struct {
		k string
		v int64
	}
	l := make([]kv, 0, len(m))
	for k, v := range m {
		l = append(l, kv{k, v})
	}
	sort.Slice(l, func(i, j int) bool {
		if l[i].v != l[j].v {
			return l[i].v > l[j].v
		}
		return l[i].k < l[j].k
	})
	out := map[string]int64{}
	var rest int64
	for i, e := range l {
		if i < n {
			out[e.k] = e.v
		} else {
			rest += e.v
		}
	}
	out["(other)"] = rest
	return out
}

// ---------------------------------------------------------------------------
// Known findings

type Finding struct {
	Property string `json:"property"`
	ID       string `json:"id"`
	Status   string `json:"status"` // "known" or "fixed"
	Class    string `json:"class"`  // name of the structural predicate in the property's test code
	What     string `json:"what"`
	Replay   string `json:"replay"` // path relative to /verif
	Commit   string `json:"commit,omitempty"`
}

type findingsFile struct {
	Findings []Finding `json:"findings"`
}

var (
	findingsOnce sync.Once
	findings     []Finding
)

func loadFindings() {
	b, err := os.ReadFile(filepath.Join(Root(), "known_findings.json"))
	if err != nil {
		return
	}
	var ff findingsFile
	if json.Unmarshal(b, &ff) == nil {
		findings = ff.Findings
	}
}

// KnownClasses returns the set of predicate names listed with status
// "known" for a property.  Generators/oracles use it to route failures that
// fall inside a listed class to KnownHit instead of a violation.
func KnownClasses(prop string) map[string]string {
	findingsOnce.Do(loadFindings)
	out := map[string]string{}
	for _, f := range findings {
		if f.Property == prop && f.Status == "known" && f.Class != "" {
			out[f.Class] = f.ID
		}
	}
	return out
}

// ReplayPath is the case file a TestReplay function should load.
func ReplayPath() string { return os.Getenv("VERIF_REPLAY") }

// LoadReplay decodes the "case" member of a replay/lastfail file into dst.
func LoadReplay(path string, dst any) error {
	b, err := os.ReadFile(path)
	if err != nil {
		return err
	}
	var wrapper struct {
		Case json.RawMessage `json:"case"`
	}
	if err := json.Unmarshal(b, &wrapper); err != nil {
		return err
	}
	if len(wrapper.Case) == 0 {
		return json.Unmarshal(b, dst)
	}
	return json.Unmarshal(wrapper.Case, dst)
}

// ---------------------------------------------------------------------------
// Native fuzzing crashers as replay cases

// FuzzCase is how ./check stores a crasher found by `go test -fuzz`.
type FuzzCase struct {
	Corpus string `json:"go_fuzz_corpus"`
	Target string `json:"fuzz_target"`
}

// FuzzArgs decodes a Go fuzz corpus file ("go test fuzz v1" + one typed
// literal per line) into values: []byte, string, bool, int64, uint64.
func FuzzArgs(corpus string) ([]any, error) {
	lines := strings.Split(strings.TrimSpace(corpus), "\n")
	if len(lines) == 0 || !strings.HasPrefix(lines[0], "go test fuzz v1") {
		return nil, fmt.Errorf("not a go fuzz corpus file")
	}
	var out []any
	for _, l := range lines[1:] {
		l = strings.TrimSpace(l)
		if l == "" {
			continue
		}
		open := strings.Index(l, "(")
		if open < 0 || !strings.HasSuffix(l, ")") {
			return nil, fmt.Errorf("bad corpus line %q", l)
		}
		typ, lit := l[:open], l[open+1:len(l)-1]
		switch typ {
		case "[]byte", "string":
			s, err := strconv.Unquote(lit)
			if err != nil {
				return nil, fmt.Errorf("bad literal %q: %w", lit, err)
			}
			if typ == "string" {
				out = append(out, s)
			} else {
				out = append(out, []byte(s))
			}
		case "bool":
			out = append(out, lit == "true")
		case "byte", "uint8", "uint", "uint16", "uint32", "uint64":
			if strings.HasPrefix(lit, "'") {
				r, _, _, err := strconv.UnquoteChar(lit[1:len(lit)-1], '\'')
				if err != nil {
					return nil, err
				}
				out = append(out, uint64(r))
				continue
			}
			n, err := strconv.ParseUint(lit, 0, 64)
			if err != nil {
				return nil, err
			}
			out = append(out, n)
		case "int", "int8", "int16", "int32", "int64", "rune":
			if strings.HasPrefix(lit, "'") {
				r, _, _, err := strconv.UnquoteChar(lit[1:len(lit)-1], '\'')
				if err != nil {
					return nil, err
				}
				out = append(out, int64(r))
				continue
			}
			n, err := strconv.ParseInt(lit, 0, 64)
			if err != nil {
				return nil, err
			}
			out = append(out, n)
		default:
			return nil, fmt.Errorf("unsupported corpus type %q", typ)
		}
	}
	return out, nil
}

// LoadFuzzCase returns the fuzz arguments when the replay file holds a native
// fuzzing crasher (ok=false when it is an ordinary case).
func LoadFuzzCase(path string) (target string, args []any, ok bool, err error) {
	var fc FuzzCase
	if e := LoadReplay(path, &fc); e != nil || fc.Corpus == "" {
		return "", nil, false, nil
	}
	args, err = FuzzArgs(fc.Corpus)
	return fc.Target, args, true, err
}

// ---------------------------------------------------------------------------
// Crash attribution: a property whose subject is "never crashes" records the
// case it is about to run; if the test process dies (unrecoverable runtime
// failure such as a stack overflow, or a panic on another goroutine) the
// driver finds the file and reports that case.

func (r *Recorder) currentPath() string {
	dir := OutDir()
	if dir == "" {
		return ""
	}
	shard, _ := Shard()
	return filepath.Join(dir, fmt.Sprintf("current-%s-%d.json", sanitize(r.test), shard))
}

// Begin stores the case that is about to be executed.
func (r *Recorder) Begin(c any) {
	p := r.currentPath()
	if p == "" {
		return
	}
	b, err := json.Marshal(failFile{Property: r.prop, Test: r.test, Error: "the test process died while running this case", Case: c})
	if err == nil {
		_ = os.WriteFile(p, b, 0o644)
	}
}

// Done removes the marker written by Begin.
func (r *Recorder) Done() {
	if p := r.currentPath(); p != "" {
		_ = os.Remove(p)
	}
}
