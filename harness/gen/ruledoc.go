package gen

import (
	"fmt"
	"strings"

	"pgregory.net/rapid"
)

// Style options for rendering rule documents. Zero value = conservative
// (plain/quoted single-line scalars, LF, indent 2).
type StyleOpts struct {
	// Allowed scalar styles for rule field values.
	BlockScalars   bool // | and > with chomping
	MultiLine      bool // multi-line plain / quoted / folded (line folding)
	BlankInScalar  bool // blank lines inside folded/quoted/plain multi-line scalars (known class C06-K1)
	DQEscapes      bool // double-quoted scalars using non-spellable escapes (known class C06-K2)
	IndentInd      bool // explicit indentation indicators with extra leading spaces (known class C06-K3)
	FlowMaps       bool // labels/annotations as flow mappings
	Aliases        bool // anchors + aliases: a whole rules list shared by two groups, a rule listed twice, a labels map reused (Styler.Alias)
	Comments       bool // plain (non-pint) comments and blank lines between entries
	VarIndent      bool // indentation steps other than 2, indentless sequences
	TrailingBlanks bool // blank lines after block scalars (with keep chomping)
	KeepChomp      bool // |+ and >+
	CRLF           bool
	NoFinalNewline bool
	DocStart       bool // leading '---'
	QuotedKeys     bool // quote mapping keys sometimes
	BlockNames     bool // block scalars for alert names/for values as well
	HeaderComment  bool // comment after a block scalar header: "expr: | # text" (class C06-K5)
	ShallowCont    bool // continuation lines indented by just one column more than the key (class C06-K4)
}

// AllStyles turns everything on except the three known C06 classes, which
// callers enable explicitly.
func AllStyles() StyleOpts {
	return StyleOpts{BlockScalars: true, MultiLine: true, FlowMaps: true, Comments: true, VarIndent: true,
		TrailingBlanks: true, KeepChomp: true, DocStart: true, QuotedKeys: true, BlockNames: true}
}

// Vocabulary ------------------------------------------------------------------

var (
	MetricNames = []string{"foo", "bar", "baz", "up", "http_requests_total", "node_cpu_seconds_total", "job:foo:rate5m", "errors_total"}
	LabelNames  = []string{"job", "instance", "a", "b", "c", "severity", "team", "env"}
	LabelValues = []string{"1", "2", "x", "prod", "critical", "page", "node", "api", "équipe"}
	// "foo:sum" is also a recording rule name: an alert may be called like a recording rule
	AlertNames  = []string{"Foo", "BarDown", "HighErrors", "Foo_Bar", "X1", "InstanceDown", "Alert One", "foo:sum"}
	RecordNames = []string{"job:foo:rate5m", "foo:sum", "bar:count", "instance:up:sum", "colo:job:errors", "baz_agg"}
	Durations   = []string{"5m", "1m", "10m", "1h", "30s", "0s", "2h30m", "1d"}
	AnnKeys     = []string{"summary", "description", "dashboard", "runbook_url", "link", "note"}
)

// Simple expressions whose break points are the single spaces outside quotes.
var SimpleExprs = []string{
	`up == 0`,
	`foo`,
	`sum(foo) by (job)`,
	`sum by (job) (rate(http_requests_total[5m])) > 10`,
	`rate(errors_total{job="api"}[5m]) / rate(http_requests_total{job="api"}[5m]) > 0.1`,
	`foo{a="1", b!="2"} unless on (a) bar`,
	`count(up == 0) without (instance) >= 1`,
	`absent(up{job="node"})`,
	`sum(rate(node_cpu_seconds_total{mode!="idle"}[2m])) by (instance, job) / 2`,
	`foo and on (job) bar or baz`,
	`max_over_time(foo[1h]) - min_over_time(foo[1h]) > 0`,
	`vector(1)`,
	`label_replace(foo, "c", "$1", "a", "(.*)") > 0`,
	`histogram_quantile(0.9, sum(rate(foo[5m])) by (le)) > 1`,
	`foo{job=~"a|b"} * on (instance) group_left (team) bar`,
	`1 - avg(rate(node_cpu_seconds_total{mode="idle"}[5m])) by (instance) > 0.9`,
	// one physical line far beyond any 4 KiB read buffer
	`up{instance=~"` + longAlternation + `"} == 0`,
}

// longAlternation is a 4.6 KiB regexp alternation (host names), longText a 5 KiB sentence.
var (
	longAlternation = func() string {
		var b strings.Builder
		for i := 0; b.Len() < 4600; i++ {
			if i > 0 {
				b.WriteString("|")
			}
			fmt.Fprintf(&b, "node%03d\\.example\\.com:9100", i)
		}
		return b.String()
	}()
	longText = strings.TrimSpace(strings.Repeat("lorem ipsum dolor sit amet ", 190))
)

var AnnotationValues = []string{
	`plain text`,
	`{{ $labels.job }} is down`,
	`value is {{ $value }}`,
	`Instance {{ $labels.instance }} of {{ $labels.job }} failing for 5m`,
	`https://example.com/d/{{ $labels.job }}`,
	`{{ $value | humanize }} errors`,
	`it's "quoted" text`,
	`a: b`,
	`multi word annotation with many words so that it can be folded across lines nicely`,
	`température élevée sur {{ $labels.instance }} — vérifiez`,
	`日本語 の 説明 {{ $value }}`,
	"first line\nsecond line for {{ $labels.job }}",
	"tab\tseparated\tvalue {{ $value }}",
	"nbsp\u00a0and nel\u0085inside",
	"bell\x07 esc\x1b[0m sep\u2028end",
	longText + " {{ $labels.job }}",
}

// Model -----------------------------------------------------------------------

type RuleSpec struct {
	Alert   bool
	Name    string
	Expr    string
	For     string // "" = absent
	Keep    string
	Labels  [][2]string
	Anns    [][2]string
	Comment []string // pint control comments placed above the rule (full "# pint ..." text)
}

type GroupSpec struct {
	Name     string
	Limit    string // "" = absent
	Offset   string // query_offset, "" = absent
	Interval string
	Labels   [][2]string
	Rules    []RuleSpec
}

type DocSpec struct {
	Groups []GroupSpec
}

// GenRule draws a valid rule over the vocabulary.
func GenRule(t *rapid.T, label string) RuleSpec {
	r := RuleSpec{}
	r.Alert = rapid.Bool().Draw(t, label+".alert")
	if r.Alert {
		r.Name = rapid.SampledFrom(AlertNames).Draw(t, label+".name")
	} else {
		r.Name = rapid.SampledFrom(RecordNames).Draw(t, label+".name")
	}
	r.Expr = rapid.SampledFrom(SimpleExprs).Draw(t, label+".expr")
	if r.Alert {
		if rapid.IntRange(0, 2).Draw(t, label+".hasfor") > 0 {
			r.For = rapid.SampledFrom(Durations).Draw(t, label+".for")
		}
		if rapid.IntRange(0, 3).Draw(t, label+".haskeep") == 0 {
			r.Keep = rapid.SampledFrom(Durations).Draw(t, label+".keep")
		}
		na := rapid.IntRange(0, 3).Draw(t, label+".nann")
		seen := map[string]bool{}
		for i := 0; i < na; i++ {
			k := rapid.SampledFrom(AnnKeys).Draw(t, label+".annk")
			if seen[k] {
				continue
			}
			seen[k] = true
			r.Anns = append(r.Anns, [2]string{k, rapid.SampledFrom(AnnotationValues).Draw(t, label+".annv")})
		}
	}
	nl := rapid.IntRange(0, 3).Draw(t, label+".nlab")
	seen := map[string]bool{}
	for i := 0; i < nl; i++ {
		k := rapid.SampledFrom(LabelNames).Draw(t, label+".labk")
		if seen[k] {
			continue
		}
		seen[k] = true
		r.Labels = append(r.Labels, [2]string{k, rapid.SampledFrom(LabelValues).Draw(t, label+".labv")})
	}
	return r
}

func GenGroup(t *rapid.T, label string, minRules, maxRules int) GroupSpec {
	g := GroupSpec{Name: label}
	if rapid.IntRange(0, 3).Draw(t, label+".hasint") == 0 {
		g.Interval = rapid.SampledFrom([]string{"1m", "30s", "5m", "1m30s", "1h", "90s", "1d"}).Draw(t, label+".int")
	}
	if rapid.IntRange(0, 5).Draw(t, label+".haslimit") == 0 {
		// every YAML spelling of an integer is a valid limit
		g.Limit = rapid.SampledFrom([]string{"0", "10", "1000", "0x10", "1_000", "0o17", "0b101", "+5"}).Draw(t, label+".limit")
	}
	if rapid.IntRange(0, 6).Draw(t, label+".hasoffset") == 0 {
		g.Offset = rapid.SampledFrom([]string{"30s", "1m", "0s", "1m30s", "2h"}).Draw(t, label+".offset")
	}
	if rapid.IntRange(0, 4).Draw(t, label+".hasglab") == 0 {
		g.Labels = [][2]string{{rapid.SampledFrom(LabelNames).Draw(t, label+".glk"), rapid.SampledFrom(LabelValues).Draw(t, label+".glv")}}
	}
	n := rapid.IntRange(minRules, maxRules).Draw(t, label+".nrules")
	for i := 0; i < n; i++ {
		g.Rules = append(g.Rules, GenRule(t, fmt.Sprintf("%s.r%d", label, i)))
	}
	return g
}

func GenDoc(t *rapid.T, maxGroups, maxRules int) DocSpec {
	d := DocSpec{}
	n := rapid.IntRange(1, maxGroups).Draw(t, "ngroups")
	for i := 0; i < n; i++ {
		d.Groups = append(d.Groups, GenGroup(t, fmt.Sprintf("g%d", i), 1, maxRules))
	}
	return d
}

// Rendering -------------------------------------------------------------------

// Styler turns strings into styled scalar nodes, drawing presentation choices.
type Styler struct {
	T    *rapid.T
	Opts StyleOpts
	n    int
	// Used records the style classes used (for classification).
	Used map[string]int
}

func NewStyler(t *rapid.T, o StyleOpts) *Styler {
	return &Styler{T: t, Opts: o, Used: map[string]int{}}
}

func (s *Styler) lbl(x string) string {
	s.n++
	return fmt.Sprintf("%s#%d", x, s.n)
}

// breakPoints returns indices of single spaces (outside double quotes, not
// adjacent to another space, not first/last) where content can be split.
func breakPoints(v string) []int {
	var out []int
	inq := false
	for i := 0; i < len(v); i++ {
		c := v[i]
		if c == '"' {
			inq = !inq
		}
		if c == ' ' && !inq && i > 0 && i < len(v)-1 && v[i-1] != ' ' && v[i+1] != ' ' {
			out = append(out, i)
		}
	}
	return out
}

// needsDQ: the value holds a character only a double-quoted scalar can spell (control characters, the
// Unicode line breaks, NBSP - the latter to exercise its escape).
func needsDQ(v string) bool {
	for _, r := range v {
		if r < 0x20 || r == 0x7f || r == 0x85 || r == 0xa0 || r == 0x2028 || r == 0x2029 {
			return true
		}
	}
	return false
}

func plainSafe(v string) bool {
	if v == "" || strings.TrimSpace(v) != v {
		return false
	}
	if strings.ContainsAny(v[:1], "!&*-?:,[]{}#|>@`\"'%") {
		// a leading '-' or '?' or ':' followed by non-space is legal but keep it simple
		return false
	}
	if strings.Contains(v, ": ") || strings.Contains(v, " #") || strings.HasSuffix(v, ":") || strings.ContainsAny(v, "\n\t") {
		return false
	}
	switch strings.ToLower(v) {
	case "null", "~", "true", "false", "yes", "no", "on", "off", "y", "n":
		return false
	}
	// numbers resolve to !!int / !!float
	isNum := true
	for _, c := range v {
		if !(c >= '0' && c <= '9' || c == '.' || c == '-' || c == '+' || c == 'e' || c == 'E' || c == '_' || c == 'x' || c == 'o') {
			isNum = false
		}
	}
	if isNum {
		return false
	}
	if strings.HasPrefix(v, "0x") || strings.HasPrefix(v, "0o") || strings.HasPrefix(v, ".") {
		return false
	}
	return true
}

// flowSafe: plain scalars inside flow collections cannot contain , [ ] { }
func flowSafe(v string) bool {
	return plainSafe(v) && !strings.ContainsAny(v, ",[]{}")
}

// Value styles one field value.  kind is "expr", "text" (annotation/label
// value), "name" (alert/record/for/keys).
func (s *Styler) Value(v string, kind string) *Node {
	t := s.T
	o := s.Opts
	type choice struct {
		name string
		ok   bool
	}
	bps := breakPoints(v)
	multiOK := o.MultiLine && len(bps) > 0 && kind != "name"
	blockOK := o.BlockScalars && v != "" && !strings.HasPrefix(v, " ") && (kind != "name" || o.BlockNames)
	choices := []choice{
		{"plain", plainSafe(v)},
		{"single", true},
		{"double", true},
		{"plain-multi", multiOK && plainSafe(v)},
		{"single-multi", multiOK},
		{"double-multi", multiOK},
		{"literal", blockOK},
		{"folded", blockOK},
	}
	var names []string
	for _, c := range choices {
		if c.ok && (!needsDQ(v) || strings.HasPrefix(c.name, "double")) {
			names = append(names, c.name)
		}
	}
	pick := rapid.SampledFrom(names).Draw(t, s.lbl("style"))
	n := &Node{Kind: ScalarKind, Lines: []string{v}}
	contIndent := 2
	if o.VarIndent {
		lo := 2
		if o.ShallowCont {
			lo = 1
		}
		contIndent = rapid.IntRange(lo, 6).Draw(t, s.lbl("cont"))
	}
	n.ContIndent = contIndent
	split := func(maxBreaks int) []string {
		if len(bps) == 0 {
			return []string{v}
		}
		k := rapid.IntRange(1, min(maxBreaks, len(bps))).Draw(t, s.lbl("nbreaks"))
		chosen := map[int]bool{}
		for i := 0; i < k; i++ {
			chosen[rapid.SampledFrom(bps).Draw(t, s.lbl("bp"))] = true
		}
		var lines []string
		last := 0
		for _, bp := range bps {
			if chosen[bp] {
				lines = append(lines, v[last:bp])
				last = bp + 1
			}
		}
		lines = append(lines, v[last:])
		return lines
	}
	addBlank := func(lines []string) []string {
		if !o.BlankInScalar || len(lines) < 2 || rapid.IntRange(0, 2).Draw(t, s.lbl("blank")) != 0 {
			return lines
		}
		at := rapid.IntRange(1, len(lines)-1).Draw(t, s.lbl("blankat"))
		out := append([]string{}, lines[:at]...)
		out = append(out, "")
		out = append(out, lines[at:]...)
		s.Used["blank-in-scalar"]++
		return out
	}
	switch pick {
	case "plain":
		n.Style = Plain
	case "single":
		n.Style = SingleQ
	case "double":
		n.Style = DoubleQ
		if o.DQEscapes && rapid.IntRange(0, 2).Draw(t, s.lbl("esc")) == 0 {
			s.dqEscapes(n, v)
		}
	case "plain-multi":
		n.Style = Plain
		n.Lines = addBlank(split(4))
		// a continuation line of a plain scalar must not look like a comment/indicator
		for _, l := range n.Lines[1:] {
			if strings.HasPrefix(l, "#") || strings.HasPrefix(l, "- ") || strings.HasPrefix(l, ": ") {
				n.Lines = []string{v}
				break
			}
		}
	case "single-multi":
		n.Style = SingleQ
		n.Lines = addBlank(split(4))
	case "double-multi":
		n.Style = DoubleQ
		if o.DQEscapes && rapid.IntRange(0, 2).Draw(t, s.lbl("escm")) == 0 {
			s.dqEscapes(n, v)
		}
		if bs := rapid.IntRange(0, 3).Draw(t, s.lbl("bscont")); bs == 0 {
			// escaped line breaks: no blank lines in this form
			n.Lines = split(4)
			n.BackslashCont = true
			s.Used["dq-backslash-continuation"]++
		} else if bs == 1 && len(v) > 3 {
			// escaped line breaks inside words: the value is cut anywhere (not next to a space)
			var cuts []int
			for i := 1; i < len(v); i++ {
				if v[i] != ' ' && v[i-1] != ' ' && v[i] < 0x80 && v[i-1] < 0x80 {
					cuts = append(cuts, i)
				}
			}
			if len(cuts) > 0 {
				k := rapid.IntRange(1, min(5, len(cuts))).Draw(t, s.lbl("ncuts"))
				chosen := map[int]bool{}
				for i := 0; i < k; i++ {
					chosen[rapid.SampledFrom(cuts).Draw(t, s.lbl("cut"))] = true
				}
				var frags []string
				last := 0
				for _, c := range cuts {
					if chosen[c] {
						frags = append(frags, v[last:c])
						last = c
					}
				}
				frags = append(frags, v[last:])
				n.Lines, n.BackslashCont, n.Joinless = frags, true, true
				s.Used["dq-backslash-continuation"]++
			}
		} else {
			n.Lines = addBlank(split(4))
		}
	case "literal", "folded":
		if pick == "literal" {
			n.Style = Literal
		} else {
			n.Style = Folded
		}
		chomps := []string{"", "-"}
		if o.KeepChomp {
			chomps = append(chomps, "+")
		}
		n.Chomp = rapid.SampledFrom(chomps).Draw(t, s.lbl("chomp"))
		if kind == "name" {
			n.Chomp = "-"
		}
		if kind == "expr" || kind == "text" {
			if len(bps) > 0 && rapid.Bool().Draw(t, s.lbl("split")) {
				lines := split(5)
				// extra indentation on continuation lines: literal keeps it in the
				// value (fine for PromQL), folded would keep the line break (more-indented
				// lines are not folded) - both are legal values for expr; for text it is
				// only whitespace as well.
				if kind == "expr" && rapid.Bool().Draw(t, s.lbl("extraind")) {
					for i := 1; i < len(lines); i++ {
						lines[i] = pad(rapid.IntRange(1, 4).Draw(t, s.lbl("ei"))) + lines[i]
					}
				}
				if n.Style == Folded {
					lines = addBlank(lines)
				} else if len(lines) > 1 && rapid.IntRange(0, 3).Draw(t, s.lbl("litblank")) == 0 {
					// a blank line inside a literal scalar is an ordinary "\n" of the value
					at := rapid.IntRange(1, len(lines)-1).Draw(t, s.lbl("litblankat"))
					nl := append([]string{}, lines[:at]...)
					// either a truly empty line, or a whitespace-only line that is longer than
					// the block's indentation (its extra spaces are content of a literal scalar)
					blank := ""
					if rapid.Bool().Draw(t, s.lbl("litblankws")) {
						blank = pad(rapid.IntRange(1, 3).Draw(t, s.lbl("litblankwsn")))
						s.Used["literal-ws-line"]++
					}
					nl = append(nl, blank)
					lines = append(nl, lines[at:]...)
					s.Used["literal-blank"]++
				}
				n.Lines = lines
			}
		}
		if o.IndentInd && rapid.IntRange(0, 2).Draw(t, s.lbl("indind")) == 0 {
			n.IndentInd = rapid.IntRange(1, 4).Draw(t, s.lbl("indindv"))
			if rapid.Bool().Draw(t, s.lbl("leadsp")) {
				n.Lines = append([]string{}, n.Lines...)
				n.Lines[0] = pad(rapid.IntRange(1, 3).Draw(t, s.lbl("lead"))) + n.Lines[0]
				s.Used["indent-indicator-leading-space"]++
			}
		}
		if o.TrailingBlanks && rapid.IntRange(0, 3).Draw(t, s.lbl("trail")) == 0 {
			n.TrailBlank = rapid.IntRange(1, 2).Draw(t, s.lbl("trailn"))
		}
	}
	cls := pick
	if n.Style == Literal || n.Style == Folded {
		cls += n.Chomp
	}
	if len(n.Lines) > 1 {
		cls += "/ml"
	}
	s.Used[cls]++
	if n.ContIndent == 1 && n.IndentInd == 0 && (len(n.Lines) > 1 || n.Style == Literal || n.Style == Folded) {
		s.Used["shallow-cont"]++
	}
	isBlock := n.Style == Literal || n.Style == Folded
	if o.Comments && (len(n.Lines) == 1 || isBlock) && (!isBlock || o.HeaderComment) && rapid.IntRange(0, 7).Draw(t, s.lbl("lc")) == 0 {
		n.LineComment = "note"
		if isBlock {
			s.Used["header-comment"]++
		} else {
			s.Used["line-comment"]++
		}
	}
	return n
}

func (s *Styler) dqEscapes(n *Node, v string) {
	// choose up to three characters of the value and write each as an escape sequence: \xHH, \uHHHH,
	// \UHHHHHHHH or, where YAML has one, the named form
	named := map[rune]string{'\'': `\'`, ' ': `\ `, '/': `\/`, '\t': "\\\t", 0: `\0`, 7: `\a`, 8: `\b`, 0xb: `\v`, 0xc: `\f`, 0xd: `\r`, 0x1b: `\e`,
		0x85: `\N`, 0xa0: `\_`, 0x2028: `\L`, 0x2029: `\P`}
	seen := map[rune]bool{}
	var cands []rune
	for _, r := range v {
		if r == '"' || r == '\\' || r == '\n' || r == 0xfffd || seen[r] {
			continue
		}
		seen[r] = true
		cands = append(cands, r)
	}
	if len(cands) == 0 {
		return
	}
	esc := map[string]string{}
	for i, k := 0, rapid.IntRange(1, 3).Draw(s.T, s.lbl("escn")); i < k; i++ {
		r := rapid.SampledFrom(cands).Draw(s.T, s.lbl("escc"))
		forms := []string{"U"}
		if r < 0x100 {
			forms = append(forms, "x", "x")
		}
		if r < 0x10000 {
			forms = append(forms, "u", "u")
		}
		if _, ok := named[r]; ok {
			forms = append(forms, "named", "named")
		}
		switch rapid.SampledFrom(forms).Draw(s.T, s.lbl("escf")) {
		case "x":
			esc[string(r)] = fmt.Sprintf(`\x%02x`, r)
		case "u":
			esc[string(r)] = fmt.Sprintf(`\u%04X`, r)
		case "U":
			esc[string(r)] = fmt.Sprintf(`\U%08x`, r)
		default:
			esc[string(r)] = named[r]
		}
	}
	n.Escapes = esc
	s.Used["dq-escape"]++
}

func (s *Styler) key(k string) *Node {
	if s.Opts.QuotedKeys && rapid.IntRange(0, 9).Draw(s.T, s.lbl("qk")) == 0 {
		if rapid.Bool().Draw(s.T, s.lbl("qks")) {
			return SQ(k)
		}
		return DQ(k)
	}
	return P(k)
}

func (s *Styler) filler() []string {
	if !s.Opts.Comments {
		return nil
	}
	switch rapid.IntRange(0, 9).Draw(s.T, s.lbl("fill")) {
	case 0:
		return []string{""}
	case 1:
		return []string{"# a comment"}
	case 2:
		return []string{"", "# note: something", ""}
	}
	return nil
}

func (s *Styler) strMap(kvs [][2]string) *Node {
	m := &Node{Kind: MapKind}
	flow := s.Opts.FlowMaps && rapid.IntRange(0, 3).Draw(s.T, s.lbl("flow")) == 0
	if flow {
		for _, kv := range kvs {
			if strings.ContainsAny(kv[1], "\n") {
				flow = false
			}
		}
	}
	if flow {
		m.Flow = true
		s.Used["flow-map"]++
		for _, kv := range kvs {
			var v *Node
			switch {
			case needsDQ(kv[1]):
				v = DQ(kv[1])
			case flowSafe(kv[1]) && rapid.Bool().Draw(s.T, s.lbl("fp")):
				v = P(kv[1])
			case rapid.Bool().Draw(s.T, s.lbl("fq")):
				v = SQ(kv[1])
			default:
				v = DQ(kv[1])
			}
			m.Pairs = append(m.Pairs, Pair{Key: s.key(kv[0]), Val: v})
		}
		return m
	}
	if s.Opts.VarIndent {
		m.Indent = rapid.IntRange(1, 6).Draw(s.T, s.lbl("mind"))
	}
	for _, kv := range kvs {
		m.Pairs = append(m.Pairs, Pair{Key: s.key(kv[0]), Val: s.Value(kv[1], "text"), Before: s.filler()})
	}
	return m
}

// Rule renders one rule as a mapping node.
func (s *Styler) Rule(r RuleSpec) *Node {
	t := s.T
	m := &Node{Kind: MapKind}
	if s.Opts.VarIndent {
		m.Indent = rapid.IntRange(1, 6).Draw(t, s.lbl("rind"))
	}
	type f struct {
		k string
		v *Node
	}
	var fields []f
	nameKey := "record"
	if r.Alert {
		nameKey = "alert"
	}
	fields = append(fields, f{nameKey, s.Value(r.Name, "name")})
	fields = append(fields, f{"expr", s.Value(r.Expr, "expr")})
	if r.For != "" {
		fields = append(fields, f{"for", s.Value(r.For, "name")})
	}
	if r.Keep != "" {
		fields = append(fields, f{"keep_firing_for", s.Value(r.Keep, "name")})
	}
	if len(r.Labels) > 0 {
		fields = append(fields, f{"labels", s.strMap(r.Labels)})
	}
	if len(r.Anns) > 0 {
		fields = append(fields, f{"annotations", s.strMap(r.Anns)})
	}
	// field order: a random permutation some of the time
	if rapid.IntRange(0, 2).Draw(t, s.lbl("perm")) == 0 {
		perm := rapid.Permutation(fields).Draw(t, s.lbl("order"))
		fields = perm
	}
	for i, fl := range fields {
		p := Pair{Key: s.key(fl.k), Val: fl.v}
		if i > 0 {
			p.Before = s.filler()
		}
		m.Pairs = append(m.Pairs, p)
	}
	return m
}

// RuleList renders a sequence of rules; pint control comments of each rule are
// put right above it, at the dash column.
func (s *Styler) RuleList(rules []RuleSpec) *Node {
	seq := &Node{Kind: SeqKind}
	if s.Opts.VarIndent {
		seq.Indent = rapid.IntRange(2, 6).Draw(s.T, s.lbl("sind"))
		seq.Inline = rapid.IntRange(0, 3).Draw(s.T, s.lbl("inl")) == 0
	}
	for i, r := range rules {
		seq.Items = append(seq.Items, s.Rule(r))
		var before []string
		if i > 0 {
			before = append(before, s.filler()...)
		}
		before = append(before, r.Comment...)
		seq.ItemBefore = append(seq.ItemBefore, before)
	}
	return seq
}

func (s *Styler) Group(g GroupSpec) *Node {
	m := &Node{Kind: MapKind}
	if s.Opts.VarIndent {
		m.Indent = rapid.IntRange(1, 6).Draw(s.T, s.lbl("gind"))
	}
	nameStyle := P
	if !plainSafe(g.Name) || rapid.IntRange(0, 4).Draw(s.T, s.lbl("gq")) == 0 {
		nameStyle = DQ
	}
	m.Pairs = append(m.Pairs, Pair{Key: P("name"), Val: nameStyle(g.Name)})
	if g.Interval != "" {
		m.Pairs = append(m.Pairs, Pair{Key: P("interval"), Val: P(g.Interval), Before: s.filler()})
	}
	if g.Limit != "" {
		m.Pairs = append(m.Pairs, Pair{Key: P("limit"), Val: P(g.Limit), Before: s.filler()})
	}
	if g.Offset != "" {
		m.Pairs = append(m.Pairs, Pair{Key: P("query_offset"), Val: P(g.Offset), Before: s.filler()})
	}
	if len(g.Labels) > 0 {
		m.Pairs = append(m.Pairs, Pair{Key: P("labels"), Val: s.strMap(g.Labels), Before: s.filler()})
	}
	m.Pairs = append(m.Pairs, Pair{Key: P("rules"), Val: s.RuleList(g.Rules), Before: s.filler()})
	return m
}

// Doc renders a strict-layout document.
func (s *Styler) Doc(d DocSpec) string {
	groups := &Node{Kind: SeqKind}
	if s.Opts.VarIndent {
		groups.Indent = rapid.IntRange(2, 6).Draw(s.T, s.lbl("gsind"))
		groups.Inline = rapid.IntRange(0, 3).Draw(s.T, s.lbl("ginl")) == 0
	}
	for i, g := range d.Groups {
		groups.Items = append(groups.Items, s.Group(g))
		if i > 0 {
			groups.ItemBefore = append(groups.ItemBefore, s.filler())
		} else {
			groups.ItemBefore = append(groups.ItemBefore, nil)
		}
	}
	s.Alias(groups)
	root := &Node{Kind: MapKind, Pairs: []Pair{{Key: P("groups"), Val: groups, Before: s.filler()}}}
	if s.Opts.VarIndent {
		root.Indent = rapid.IntRange(1, 6).Draw(s.T, s.lbl("rootind"))
	}
	return s.Finish(Emit(root))
}

// Alias rewrites parts of a groups list (as built by Group) with YAML anchors and aliases - all of them ways of
// writing the same rules once more that the YAML decoder (and so Prometheus) resolves: the whole `rules:` list of
// a group shared by a later group, a rule listed a second time through an alias, a labels / annotations mapping
// reused by a later rule.  No-op unless Opts.Aliases.
func (s *Styler) Alias(groups *Node) {
	if !s.Opts.Aliases || rapid.IntRange(0, 2).Draw(s.T, s.lbl("alias")) != 0 {
		return
	}
	pairOf := func(m *Node, key string) *Pair {
		if m == nil || m.Kind != MapKind {
			return nil
		}
		for i := range m.Pairs {
			if keyText(m.Pairs[i].Key) == key {
				return &m.Pairs[i]
			}
		}
		return nil
	}
	n := 0
	anchor := func(node *Node) string {
		if node.Anchor == "" {
			n++
			node.Anchor = fmt.Sprintf("a%d", n)
		}
		return node.Anchor
	}
	switch rapid.SampledFrom([]string{"rules-list", "rule-twice", "map-reused"}).Draw(s.T, s.lbl("aliaskind")) {
	case "rules-list":
		if len(groups.Items) < 2 {
			return
		}
		i := rapid.IntRange(0, len(groups.Items)-2).Draw(s.T, s.lbl("aliasfrom"))
		j := rapid.IntRange(i+1, len(groups.Items)-1).Draw(s.T, s.lbl("aliasto"))
		src, dst := pairOf(groups.Items[i], "rules"), pairOf(groups.Items[j], "rules")
		if src == nil || dst == nil || src.Val == nil || src.Val.Kind != SeqKind || len(src.Val.Items) == 0 {
			return
		}
		dst.Val = &Node{Kind: AliasKind, Alias: anchor(src.Val)}
		s.Used["alias-rules-list"]++
	case "rule-twice":
		g := groups.Items[rapid.IntRange(0, len(groups.Items)-1).Draw(s.T, s.lbl("aliasg"))]
		rp := pairOf(g, "rules")
		if rp == nil || rp.Val == nil || rp.Val.Kind != SeqKind || len(rp.Val.Items) == 0 {
			return
		}
		it := rp.Val.Items[rapid.IntRange(0, len(rp.Val.Items)-1).Draw(s.T, s.lbl("aliasr"))]
		if it == nil || it.Kind != MapKind || it.Flow {
			return
		}
		rp.Val.Items = append(rp.Val.Items, &Node{Kind: AliasKind, Alias: anchor(it)})
		s.Used["alias-rule-twice"]++
	default:
		// the first labels / annotations mapping found is reused by every later rule that has that field
		for _, field := range []string{"labels", "annotations"} {
			var first *Node
			for _, g := range groups.Items {
				rp := pairOf(g, "rules")
				if rp == nil || rp.Val == nil || rp.Val.Kind != SeqKind {
					continue
				}
				for _, it := range rp.Val.Items {
					fp := pairOf(it, field)
					if fp == nil || fp.Val == nil || fp.Val.Kind != MapKind {
						continue
					}
					if first == nil {
						first = fp.Val
						continue
					}
					fp.Val = &Node{Kind: AliasKind, Alias: anchor(first)}
					s.Used["alias-map-reused"]++
				}
			}
		}
	}
}

// Finish applies document-level presentation (doc start, CRLF, final newline).
func (s *Styler) Finish(out string) string {
	if s.Opts.DocStart && rapid.IntRange(0, 4).Draw(s.T, s.lbl("docstart")) == 0 {
		out = "---\n" + out
		s.Used["doc-start"]++
	}
	if s.Opts.NoFinalNewline && rapid.IntRange(0, 3).Draw(s.T, s.lbl("nofinal")) == 0 {
		out = strings.TrimRight(out, "\n")
		s.Used["no-final-newline"]++
	}
	if s.Opts.CRLF && rapid.IntRange(0, 3).Draw(s.T, s.lbl("crlf")) == 0 {
		out = strings.ReplaceAll(out, "\n", "\r\n")
		s.Used["crlf"]++
	}
	return out
}

// Class summarises the styles a styler used (sorted keys).
func (s *Styler) Class() string {
	keys := make([]string, 0, len(s.Used))
	for k := range s.Used {
		keys = append(keys, k)
	}
	sortStrings(keys)
	return strings.Join(keys, ",")
}

func sortStrings(a []string) {
	for i := 1; i < len(a); i++ {
		for j := i; j > 0 && a[j] < a[j-1]; j-- {
			a[j], a[j-1] = a[j-1], a[j]
		}
	}
}
