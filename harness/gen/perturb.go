package gen

import (
	"fmt"
	"strings"

	"pgregory.net/rapid"
)

// Perturbation of rule document trees: every field independently valid /
// invalid value / mistyped / duplicated / missing / unknown key.

type role int

const (
	roleRoot role = iota
	roleGroup
	roleRule
	roleStrMap // labels / annotations / group labels
)

func (r role) String() string { return [...]string{"root", "group", "rule", "strmap"}[r] }

type mapRef struct {
	n    *Node
	role role
	key  string // for strmap: labels | annotations
}

func collectMaps(root *Node) (out []mapRef) {
	if root == nil || root.Kind != MapKind {
		return nil
	}
	out = append(out, mapRef{root, roleRoot, ""})
	for _, p := range root.Pairs {
		if keyText(p.Key) != "groups" || p.Val == nil || p.Val.Kind != SeqKind {
			continue
		}
		for _, g := range p.Val.Items {
			if g == nil || g.Kind != MapKind {
				continue
			}
			out = append(out, mapRef{g, roleGroup, ""})
			for _, gp := range g.Pairs {
				switch keyText(gp.Key) {
				case "labels":
					if gp.Val != nil && gp.Val.Kind == MapKind {
						out = append(out, mapRef{gp.Val, roleStrMap, "group-labels"})
					}
				case "rules":
					if gp.Val == nil || gp.Val.Kind != SeqKind {
						continue
					}
					for _, r := range gp.Val.Items {
						if r == nil || r.Kind != MapKind {
							continue
						}
						out = append(out, mapRef{r, roleRule, ""})
						for _, rp := range r.Pairs {
							k := keyText(rp.Key)
							if (k == "labels" || k == "annotations") && rp.Val != nil && rp.Val.Kind == MapKind {
								out = append(out, mapRef{rp.Val, roleStrMap, k})
							}
						}
					}
				}
			}
		}
	}
	return out
}

func keyText(k *Node) string {
	if k == nil || k.Kind != ScalarKind {
		return ""
	}
	return strings.Join(k.Lines, " ")
}

// value pools -----------------------------------------------------------------

var (
	badTyped = []*Node{
		Raw("5"), Raw("true"), Raw("null"), Raw("~"), Raw(""), Raw("[a, b]"), Raw("{a: b}"), Raw("1.5"), Raw("0x10"),
		Raw("2024-01-01"), Raw("!!binary aGVsbG8="), Raw("!!str 5"), Raw("!!int '5'"), Raw("[]"), Raw("{}"), Raw(`""`), Raw("- a"),
	}
	badDurations = []string{"5x", "-5m", "0", "0s", "1", "5 m", "1h30", "abc", "99999999999999999999d", "1y1y", "5M", "", "1.5m"}
	badNames     = []string{"a{b}", "1foo", "foo bar", "foo-bar", "__name__", "métrique", "foo:bar{}", "{foo}", "", " foo", "foo\"", "a.b", "a/b", "{\"a\"}", "ALERTS"}
	badExprs     = []string{"sum(", "foo bar", "up ==", "rate(foo)", "foo{", "1 +", "sum(foo) by", "foo[5m", "{}", "foo offset", "\"str\"", "", "foo{a=~\"(\"}",
		"sum by (job) (foo) on (job) bar", "foo @ x", "count_values(foo)", "rate(foo[5m])[5m]", "foo and 1",
		// valid syntax, but behind a feature flag Prometheus' rule loader does not enable
		"mad_over_time(foo[5m]) > 1", "limitk(2, foo)", "limit_ratio(0.5, foo)", "sort_by_label(foo, \"job\")", "sort_by_label_desc(foo, \"job\")",
		"info(foo)", "double_exponential_smoothing(foo[5m], 0.5, 0.5)", "sum(mad_over_time(foo[5m])) by (job) > 0"}
	badTemplates = []string{"{{ $labels.x", "{{ nofunc }}", "{{ .Foo.Bar }}", "{{ end }}", "{{ if }}", "{{ $x }}", "{{ range }}", "{{ template \"x\" }}", "{{ \"a\" | nofilter }}",
		"{{ $labels.job | humanize | }}", "}}{{", "{{ define \"x\" }}"}
	unknownKeys = []string{"foo", "Alert", "exp", "label", "annotation", "For", "interval", "name", "rules", "groups", "limit", "partial_response_strategy", "keep_firing", "source_tenants", "query_offset", "evaluation_delay"}
)

// Perturber applies random structural mutations and records what it did.
type Perturber struct {
	T   *rapid.T
	n   int
	Ops []string
}

func (p *Perturber) lbl(s string) string { p.n++; return fmt.Sprintf("pert.%s#%d", s, p.n) }

func (p *Perturber) note(format string, a ...any) { p.Ops = append(p.Ops, fmt.Sprintf(format, a...)) }

// Apply performs k mutations on the tree.
func (p *Perturber) Apply(root *Node, k int) {
	for i := 0; i < k; i++ {
		maps := collectMaps(root)
		if len(maps) == 0 {
			return
		}
		m := maps[rapid.IntRange(0, len(maps)-1).Draw(p.T, p.lbl("map"))]
		p.mutate(root, m)
	}
}

func (p *Perturber) pick(list []string, what string) string {
	return list[rapid.IntRange(0, len(list)-1).Draw(p.T, p.lbl(what))]
}

func (p *Perturber) mutate(root *Node, m mapRef) {
	t := p.T
	ops := []string{"set", "set", "set", "dup", "del", "unknown", "rename", "retype", "nullify", "merge"}
	if m.role == roleRoot {
		ops = []string{"dup", "unknown", "retype", "rename", "nullify", "merge"}
	}
	if m.role == roleGroup {
		ops = append(ops, "dupgroup", "anchor")
	}
	if m.role == roleRule {
		ops = append(ops, "both", "anchor")
	}
	op := ops[rapid.IntRange(0, len(ops)-1).Draw(t, p.lbl("op"))]
	n := m.n
	if len(n.Pairs) == 0 {
		return
	}
	pi := rapid.IntRange(0, len(n.Pairs)-1).Draw(t, p.lbl("pair"))
	key := keyText(n.Pairs[pi].Key)
	switch op {
	case "set":
		v := p.badValue(m, key)
		if v != nil {
			n.Pairs[pi].Val = v
			p.note("%s.%s=bad", m.role, keyClass(m, key))
		}
	case "nullify":
		n.Pairs[pi].Val = Raw(p.pick([]string{"null", "~", "", "Null", "NULL"}, "null"))
		p.note("%s.%s=null", m.role, keyClass(m, key))
	case "dup":
		cp := n.Pairs[pi]
		at := rapid.IntRange(0, len(n.Pairs)).Draw(t, p.lbl("dupat"))
		n.Pairs = append(n.Pairs[:at], append([]Pair{cp}, n.Pairs[at:]...)...)
		p.note("%s.%s dup", m.role, keyClass(m, key))
	case "del":
		n.Pairs = append(n.Pairs[:pi], n.Pairs[pi+1:]...)
		p.note("%s.%s del", m.role, keyClass(m, key))
	case "unknown":
		k := p.pick(unknownKeys, "ukey")
		var v *Node = P("x")
		if rapid.Bool().Draw(t, p.lbl("uval")) {
			v = Raw(p.pick([]string{"5", "[a]", "{a: b}", "null", "abort", "warn", "1m"}, "uvalv"))
		}
		at := rapid.IntRange(0, len(n.Pairs)).Draw(t, p.lbl("uat"))
		n.Pairs = append(n.Pairs[:at], append([]Pair{{Key: P(k), Val: v}}, n.Pairs[at:]...)...)
		p.note("%s +key", m.role)
	case "rename":
		nk := p.pick([]string{"alert", "record", "expr", "for", "keep_firing_for", "labels", "annotations", "name", "rules", "interval", "groups", "limit", "query_offset"}, "rename")
		n.Pairs[pi].Key = P(nk)
		p.note("%s.%s->%s", m.role, keyClass(m, key), nk)
	case "retype":
		// change the type of a container value
		n.Pairs[pi].Val = Raw(p.pick([]string{"{}", "[]", "[a, b]", "{a: b}", "x", "5", "null", "- - a", "[[a]]", "[{a: b}]", "[null]", "[5]", "{a: {b: c}}", "{a: [b]}", "{a: 5}", "{a: null}", "{5: a}", "{a: true}",
			// explicit tags that contradict the node kind or the field type
			"!!str [a]", "!!str {a: b}", "!!map []", "!!seq {}", "!!int x", "!!str 5", "!!bool yes", "!!null x", "!!float 1", "!!binary aGk=", "!!timestamp 2024-01-01", "!!set {a}", "! x",
			"{a: !!str [b]}", "{a: !!str {b: c}}", "{a: !!int 5}", "{a: !!null x}", "[!!str [a]]"}, "retype"))
		p.note("%s.%s retype", m.role, keyClass(m, key))
	case "merge":
		// a merge key whose value is written in place: values YAML cannot merge, mappings that bring in
		// fields of this level (valid, unknown, duplicated, wrongly typed), lists of mappings
		vals := []string{"x", "5", "null", "[a]", "[[a]]", "[{a: b}, c]", "{}", "[]", "{bogus: 1}", "[{bogus: 1}]", "{a: b}", "[{a: b}, {c: d}]"}
		switch m.role {
		case roleRule:
			vals = append(vals, "{expr: up}", "{for: 1m}", "{for: bogus}", "{labels: {a: b}}", "{labels: {\"a b\": [c]}}", "{annotations: {a: \"{{ nofunc }}\"}}",
				"{record: other}", "{alert: Other}", "[{expr: up}, {for: 5m}]", "{expr: \"sum(\"}", "{keep_firing_for: -1m}")
		case roleGroup:
			vals = append(vals, "{interval: 1m}", "{interval: bogus}", "{limit: -1}", "{name: other}", "{rules: []}", "{query_offset: x}", "[{interval: 1m}, {limit: x}]")
		case roleStrMap:
			vals = append(vals, "{\"a b\": c}", "{a: [b]}", "{__name__: x}", "{a: \"{{ nofunc }}\"}", "{a: 5}")
		case roleRoot:
			vals = append(vals, "{groups: []}", "{groups: x}")
		}
		if m.role == roleStrMap && len(n.Pairs) > 0 && rapid.IntRange(0, 2).Draw(t, p.lbl("mover")) == 0 {
			// a key set in place AND by the merged mapping: YAML keeps the value written in place, wherever the
			// merge key stands.  One of the two values is unusable (broken template, wrong type).
			k := keyText(n.Pairs[pi].Key)
			bad := p.pick([]string{"\"{{ if }}\"", "\"{{ nofunc }}\"", "\"{{ $x }}\"", "[a]", "{b: c}"}, "mbad")
			good := "fine"
			own, merged := bad, good
			if rapid.Bool().Draw(t, p.lbl("mwhich")) {
				own, merged = good, bad
			}
			n.Pairs[pi].Val = Raw(own)
			mp := Pair{Key: Raw("<<"), Val: Raw(fmt.Sprintf("{%q: %s}", k, merged))}
			at := rapid.IntRange(0, len(n.Pairs)).Draw(t, p.lbl("mat"))
			n.Pairs = append(n.Pairs[:at], append([]Pair{mp}, n.Pairs[at:]...)...)
			p.note("%s merge-overrides-own-key", m.role)
			return
		}
		at := rapid.IntRange(0, len(n.Pairs)).Draw(t, p.lbl("mat"))
		mp := Pair{Key: Raw("<<"), Val: Raw(p.pick(vals, "mval"))}
		n.Pairs = append(n.Pairs[:at], append([]Pair{mp}, n.Pairs[at:]...)...)
		if rapid.IntRange(0, 3).Draw(t, p.lbl("mdel")) == 0 && len(n.Pairs) > 1 {
			// and drop one of the fields written in place (the merged mapping may supply it)
			di := rapid.IntRange(0, len(n.Pairs)-1).Draw(t, p.lbl("mdeli"))
			if di != at {
				n.Pairs = append(n.Pairs[:di], n.Pairs[di+1:]...)
			}
		}
		p.note("%s merge-inplace", m.role)
	case "both":
		n.Pairs = append(n.Pairs, Pair{Key: P(p.pick([]string{"alert", "record"}, "bothk")), Val: P("other_name")})
		p.note("rule both")
	case "dupgroup":
		// duplicate the whole group (same name) in the groups list
		for _, rp := range root.Pairs {
			if keyText(rp.Key) == "groups" && rp.Val != nil && rp.Val.Kind == SeqKind {
				rp.Val.Items = append(rp.Val.Items, n)
				p.note("group dup")
				return
			}
		}
	case "anchor":
		// anchor + alias / merge key reuse inside the same list
		n.Anchor = "anc"
		alias := &Node{Kind: AliasKind, Alias: "anc"}
		for _, rp := range root.Pairs {
			if keyText(rp.Key) != "groups" || rp.Val == nil || rp.Val.Kind != SeqKind {
				continue
			}
			if m.role == roleGroup {
				if rapid.IntRange(0, 3).Draw(t, p.lbl("selfrules")) == 0 {
					// `rules: *anchor` pointing at something that is no list of rules: the group itself
					for i := range n.Pairs {
						if keyText(n.Pairs[i].Key) == "rules" {
							n.Pairs[i].Val = alias
							p.note("group rules-alias-to-group")
							return
						}
					}
				}
				rp.Val.Items = append(rp.Val.Items, alias)
				p.note("group alias")
				return
			}
			for _, g := range rp.Val.Items {
				if g == nil || g.Kind != MapKind {
					continue
				}
				for _, gp := range g.Pairs {
					if keyText(gp.Key) == "rules" && gp.Val != nil && gp.Val.Kind == SeqKind {
						for _, it := range gp.Val.Items {
							if it == n {
								if rapid.Bool().Draw(t, p.lbl("merge")) {
									gp.Val.Items = append(gp.Val.Items, &Node{Kind: MapKind, Pairs: []Pair{
										{Key: Raw("<<"), Val: alias},
										{Key: P(p.pick([]string{"alert", "record", "expr", "for"}, "mk")), Val: P("merged_value")},
									}})
									p.note("rule merge-key")
								} else {
									gp.Val.Items = append(gp.Val.Items, alias)
									p.note("rule alias")
								}
								return
							}
						}
					}
				}
			}
		}
	}
}

func keyClass(m mapRef, key string) string {
	if m.role == roleStrMap {
		return m.key
	}
	return key
}

func (p *Perturber) badValue(m mapRef, key string) *Node {
	t := p.T
	styled := func(s string) *Node {
		switch rapid.IntRange(0, 2).Draw(t, p.lbl("q")) {
		case 0:
			if plainSafe(s) {
				return P(s)
			}
			return DQ(s)
		case 1:
			return SQ(s)
		}
		return DQ(s)
	}
	if rapid.IntRange(0, 2).Draw(t, p.lbl("typed")) == 0 {
		return badTyped[rapid.IntRange(0, len(badTyped)-1).Draw(t, p.lbl("typedv"))]
	}
	switch m.role {
	case roleGroup:
		switch key {
		case "name":
			return styled(p.pick([]string{"", " ", "g0", "g1", "dup"}, "gname"))
		case "interval", "query_offset":
			return styled(p.pick(badDurations, "gdur"))
		case "limit":
			return Raw(p.pick([]string{"-1", "abc", "1.5", "\"5\"", "'10'", "!!str 3", "99999999999999999999", "9223372036854775808", "18446744073709551615",
				"0x10", "0o17", "1_000", "1e3", "+5", "0b11", "~", "[1]", "{a: 1}", "9223372036854775807"}, "glimit"))
		case "rules":
			return Raw(p.pick([]string{"{}", "x", "[x]", "[[]]", "[{}]", "[null]", "- {}"}, "grules"))
		case "labels":
			return Raw(p.pick([]string{"[a]", "x", "{__name__: x}", "{\"a b\": x}", "{a: [b]}", "{a: 5}", "{a: null}", "{a: b, a: c}", "{\"\": x}", "{a: \"\\xff\"}"}, "glabels"))
		}
	case roleRule:
		switch key {
		case "alert":
			return styled(p.pick([]string{"", " ", "Foo Bar", "{{ x }}"}, "alertn"))
		case "record":
			return styled(p.pick(badNames, "recn"))
		case "expr":
			return styled(p.pick(badExprs, "expr"))
		case "for", "keep_firing_for":
			return styled(p.pick(badDurations, "dur"))
		case "labels":
			return Raw(p.pick([]string{"[a]", "x", "{__name__: x}", "{\"a b\": x}", "{a: [b]}", "{a: 5}", "{a: null}", "{a: b, a: c}", "{\"\": x}", "{a: \"{{ $x }}\"}", "{a: \"{{ nofunc }}\"}", "{1a: x}", "{a-b: x}"}, "labels"))
		case "annotations":
			return Raw(p.pick([]string{"[a]", "x", "{\"a b\": x}", "{a: [b]}", "{a: 5}", "{a: null}", "{a: b, a: c}", "{\"\": x}", "{a: \"{{ $x }}\"}", "{a: \"{{ nofunc }}\"}", "{1a: x}", "{a-b: x}", "{__name__: x}"}, "anns"))
		}
	case roleStrMap:
		if rapid.Bool().Draw(t, p.lbl("tmpl")) {
			return styled(p.pick(badTemplates, "tmplv"))
		}
		return styled(p.pick([]string{"", "\xff\xfe", "ok value", "{{ $value }}", "{{ $labels.job }}"}, "strv"))
	}
	return nil
}

// PerturbKeys renames keys of string maps (labels / annotations) to invalid names.
func (p *Perturber) PerturbKeys(root *Node) {
	var sm []mapRef
	for _, m := range collectMaps(root) {
		if m.role == roleStrMap && len(m.n.Pairs) > 0 {
			sm = append(sm, m)
		}
	}
	if len(sm) == 0 {
		return
	}
	m := sm[rapid.IntRange(0, len(sm)-1).Draw(p.T, p.lbl("kmap"))]
	pi := rapid.IntRange(0, len(m.n.Pairs)-1).Draw(p.T, p.lbl("kpair"))
	nk := p.pick([]string{"__name__", "a b", "1a", "a-b", "", "métrique", "a.b", "le", "__meta", "a\"b", "5"}, "kname")
	if plainSafe(nk) {
		m.n.Pairs[pi].Key = P(nk)
	} else {
		m.n.Pairs[pi].Key = DQ(nk)
	}
	p.note("%s key=%q", m.key, nk)
}

// TextMutate applies k line/byte level mutations to rendered text.
func (p *Perturber) TextMutate(src string, k int) string {
	t := p.T
	for i := 0; i < k; i++ {
		lines := strings.Split(src, "\n")
		if len(lines) < 2 {
			return src
		}
		li := rapid.IntRange(0, len(lines)-1).Draw(t, p.lbl("line"))
		switch rapid.IntRange(0, 10).Draw(t, p.lbl("tmop")) {
		case 0: // delete line
			lines = append(lines[:li], lines[li+1:]...)
			p.note("text del-line")
		case 1: // duplicate line
			lines = append(lines[:li+1], lines[li:]...)
			p.note("text dup-line")
		case 2: // swap with next
			if li+1 < len(lines) {
				lines[li], lines[li+1] = lines[li+1], lines[li]
			}
			p.note("text swap")
		case 3: // re-indent
			d := rapid.IntRange(-3, 3).Draw(t, p.lbl("reind"))
			if d > 0 {
				lines[li] = pad(d) + lines[li]
			} else {
				for j := 0; j < -d && strings.HasPrefix(lines[li], " "); j++ {
					lines[li] = lines[li][1:]
				}
			}
			p.note("text reindent")
		case 4: // tab
			lines[li] = "\t" + lines[li]
			p.note("text tab")
		case 5: // document separator
			lines = append(lines[:li], append([]string{"---"}, lines[li:]...)...)
			p.note("text docsep")
		case 6: // truncate line
			if len(lines[li]) > 1 {
				lines[li] = lines[li][:rapid.IntRange(0, len(lines[li])-1).Draw(t, p.lbl("trunc"))]
			}
			p.note("text truncate")
		case 7: // insert junk
			junk := p.pick([]string{"\xff", ": ", "- ", "# ", "'", "\"", "{", "[", "&a ", "*a", "!!str ", "|", ">", "? ", "%", "@", "`", "\r", "\x00", "<<: "}, "junk")
			at := rapid.IntRange(0, len(lines[li])).Draw(t, p.lbl("junkat"))
			lines[li] = lines[li][:at] + junk + lines[li][at:]
			p.note("text junk")
		case 8: // splice: repeat the whole document
			lines = append(lines, lines...)
			p.note("text splice")
		case 9: // CRLF everywhere
			for j := range lines {
				lines[j] += "\r"
			}
			p.note("text crlf")
		case 10: // one physical line beyond 64 KiB (bufio.Scanner's token limit): a comment, invisible to YAML
			lines = append(lines[:li], append([]string{"# " + strings.Repeat("0123456789abcdef", 4400)}, lines[li:]...)...)
			p.note("text long-line")
		}
		src = strings.Join(lines, "\n")
	}
	return src
}
