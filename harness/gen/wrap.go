package gen

import (
	"fmt"
	"strings"

	"pgregory.net/rapid"
)

var wrapKeys = []string{"spec", "data", "foo", "rules", "items", "prometheus", "alerting_rules.yml", "x-y", "group", "metadata"}

// wrapKeysTyped: parent keys that YAML does not resolve to plain strings (integers, floats, booleans, null,
// timestamps), quoted and tagged keys, keys with spaces and non-ASCII text.  Emitted verbatim.
var wrapKeysTyped = []string{"1", "2024", "-3", "1.5", "0x1f", "true", "no", "~", "null", "2024-01-01", "1e3", ".inf",
	`"1"`, `'true'`, `"quoted key"`, `'it''s'`, "!!str 5", "clé", "a b c", "日本"}

func sibling(t *rapid.T, lbl string) Pair {
	// never a rule field name (alert, record, expr, for, labels, annotations ...):
	// pint treats those as an attempt to write a rule
	k := rapid.SampledFrom([]string{"apiVersion", "kind", "name", "zzz", "namespace", "enabled", "list", "count"}).Draw(t, lbl+".k")
	var v *Node
	switch rapid.IntRange(0, 4).Draw(t, lbl+".v") {
	case 0:
		v = P("v1")
	case 1:
		v = DQ("some text")
	case 2:
		v = Map(KV("a", P("b")), KV("c", P("1")))
	case 3:
		v = Seq(P("one"), P("two"))
	default:
		v = P("true")
	}
	return Pair{Key: P(k), Val: v}
}

// Wrap builds `levels` levels of parent structure (mappings with sibling keys,
// optionally sequences) around inner.
func Wrap(t *rapid.T, inner *Node, levels int, seqOK bool, used map[string]int) *Node {
	cur := inner
	for lv := 0; lv < levels; lv++ {
		lbl := fmt.Sprintf("w%d", lv)
		if seqOK && rapid.IntRange(0, 3).Draw(t, lbl+".seq") == 0 {
			s := &Node{Kind: SeqKind, Indent: rapid.IntRange(2, 5).Draw(t, lbl+".ind")}
			nb := rapid.IntRange(0, 1).Draw(t, lbl+".nb")
			for i := 0; i < nb; i++ {
				s.Items = append(s.Items, P("item"))
			}
			s.Items = append(s.Items, cur)
			if rapid.Bool().Draw(t, lbl+".after") {
				s.Items = append(s.Items, P("tail"))
			}
			used["seq-level"]++
			cur = s
			continue
		}
		m := &Node{Kind: MapKind, Indent: rapid.IntRange(1, 5).Draw(t, lbl+".ind")}
		seen := map[string]bool{}
		addSib := func(l string) {
			p := sibling(t, l)
			if !seen[p.Key.Lines[0]] {
				seen[p.Key.Lines[0]] = true
				m.Pairs = append(m.Pairs, p)
			}
		}
		nb := rapid.IntRange(0, 2).Draw(t, lbl+".nbefore")
		for i := 0; i < nb; i++ {
			addSib(fmt.Sprintf("%s.b%d", lbl, i))
		}
		key := P(rapid.SampledFrom(wrapKeys).Draw(t, lbl+".key"))
		if rapid.IntRange(0, 3).Draw(t, lbl+".typedkey") == 0 {
			key = Raw(rapid.SampledFrom(wrapKeysTyped).Draw(t, lbl+".tkey"))
			used["typed-parent-key"]++
		}
		m.Pairs = append(m.Pairs, Pair{Key: key, Val: cur})
		na := rapid.IntRange(0, 2).Draw(t, lbl+".nafter")
		for i := 0; i < na; i++ {
			addSib(fmt.Sprintf("%s.a%d", lbl, i))
		}
		if cur.Kind == SeqKind && rapid.IntRange(0, 3).Draw(t, lbl+".inl") == 0 {
			cur.Inline = true
		}
		used["map-level"]++
		cur = m
	}
	return cur
}

// InBlockScalar embeds YAML text as the value of a literal block scalar
// (ConfigMap style), indented by ind extra columns.
func InBlockScalar(text string, ind int) string {
	lines := strings.Split(strings.TrimRight(text, "\n"), "\n")
	var b strings.Builder
	b.WriteString("kind: ConfigMap\ndata:\n  rules.yml: |\n")
	for _, l := range lines {
		if l == "" {
			b.WriteString("\n")
		} else {
			b.WriteString(strings.Repeat(" ", 2+ind) + l + "\n")
		}
	}
	return b.String()
}

// SortedKeys returns the keys of a counter map, sorted.
func SortedKeys(m map[string]int) []string {
	keys := make([]string, 0, len(m))
	for k := range m {
		keys = append(keys, k)
	}
	sortStrings(keys)
	return keys
}

// InQuotedScalar embeds YAML text as a double-quoted scalar with escaped line
// breaks, InFoldedScalar as a folded block scalar: both are multi-line string
// values whose lines do not map one to one to lines of the file.
func InQuotedScalar(text string) string {
	return "kind: ConfigMap\nrules: " + `"` + dqEscape(text, nil) + `"` + "\nother: 1\n"
}

func InFoldedScalar(text string, ind int) string {
	lines := strings.Split(strings.TrimRight(text, "\n"), "\n")
	var b strings.Builder
	b.WriteString("data:\n  rules.yml: >\n")
	for _, l := range lines {
		if l == "" {
			b.WriteString("\n")
		} else {
			b.WriteString(strings.Repeat(" ", 2+ind) + l + "\n\n")
		}
	}
	return b.String()
}
