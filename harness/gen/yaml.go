// Package gen holds the generators shared by the property packages: a small
// styled-YAML emitter, the Prometheus rule document model on top of it, PromQL
// expressions, pint configurations.  Every random choice is a rapid draw.
package gen

import (
	"fmt"
	"strings"
)

type Kind int

const (
	ScalarKind Kind = iota
	MapKind
	SeqKind
	AliasKind
	RawKind // verbatim text placed where a value would go (for perturbations)
)

type ScalarStyle int

const (
	Plain ScalarStyle = iota
	SingleQ
	DoubleQ
	Literal // |
	Folded  // >
)

func (s ScalarStyle) String() string {
	return [...]string{"plain", "single", "double", "literal", "folded"}[s]
}

// Node is a YAML tree annotated with every presentation choice.
type Node struct {
	Kind Kind

	// --- scalars
	// Lines is the logical content split at the places where the emitter puts
	// a physical line break.  For Plain/SingleQ/DoubleQ/Folded a break between
	// two lines folds into ONE space in the value (so generators split content
	// at single spaces); an empty string in Lines is a blank line (it folds
	// into "\n").  For Literal every line break is a "\n" of the value and
	// leading spaces of a line are kept.
	Lines []string
	Style ScalarStyle
	Chomp string // "", "-", "+" for block scalars
	// IndentInd > 0 emits an explicit indentation indicator (block scalars).
	IndentInd int
	// ContIndent is the extra indentation (>=1) of continuation lines / block
	// content relative to the parent key's column.
	ContIndent int
	// TrailBlank adds blank lines after a block scalar's content (matters for
	// keep chomping).
	TrailBlank int
	// Escapes: render DoubleQ content using these replacements (value char ->
	// escape sequence), e.g. "\t" -> `\t`.  `"` and `\` are always escaped.
	Escapes map[string]string
	// BackslashCont: a multi-line DoubleQ scalar breaks its lines with an escaped
	// line break (`text \` + newline): the value keeps the space before the backslash
	// and drops the line break and the indentation of the next line.
	BackslashCont bool
	// Joinless (with BackslashCont): Lines are fragments of the value cut at arbitrary places (also inside
	// words); they are joined without anything in between (`frag\` + newline + indentation + `ment`).
	Joinless bool
	// LineComment is appended after single-line plain/quoted scalars and
	// after block scalar headers (" # text").
	LineComment string

	// --- collections
	Pairs  []Pair
	Items  []*Node
	Flow   bool
	Indent int  // indentation step of this block collection's children (>=1); 0 = default 2
	Inline bool // seq under a key: "key:\n- a" (indentless) when true

	// ItemBefore[i] are full lines (comments / blanks) emitted before item i of a sequence.
	ItemBefore [][]string

	Anchor string // &name
	Alias  string // for AliasKind: *name
	Raw    string // for RawKind
	Tag    string // e.g. "!!str"
}

type Pair struct {
	Key    *Node
	Val    *Node
	Before []string // full lines emitted before this pair: "" = blank line, "# x" = comment (indented by the emitter)
}

// Scalar helpers ------------------------------------------------------------

func P(s string) *Node  { return &Node{Kind: ScalarKind, Style: Plain, Lines: []string{s}} }
func SQ(s string) *Node { return &Node{Kind: ScalarKind, Style: SingleQ, Lines: []string{s}} }
func DQ(s string) *Node { return &Node{Kind: ScalarKind, Style: DoubleQ, Lines: []string{s}} }
func Raw(s string) *Node {
	return &Node{Kind: RawKind, Raw: s}
}
func Map(pairs ...Pair) *Node   { return &Node{Kind: MapKind, Pairs: pairs} }
func Seq(items ...*Node) *Node  { return &Node{Kind: SeqKind, Items: items} }
func KV(k string, v *Node) Pair { return Pair{Key: P(k), Val: v} }

// Emitter -------------------------------------------------------------------

type Emitter struct {
	b strings.Builder
}

// Emit renders a document whose root is a block mapping or sequence.
func Emit(root *Node) string {
	var e Emitter
	e.block(root, 0)
	return e.b.String()
}

func (e *Emitter) w(s string) { e.b.WriteString(s) }

func pad(n int) string {
	if n <= 0 {
		return ""
	}
	return strings.Repeat(" ", n)
}

func (e *Emitter) before(lines []string, indent int) {
	for _, l := range lines {
		if l == "" {
			e.w("\n")
		} else {
			e.w(pad(indent) + l + "\n")
		}
	}
}

func step(n *Node) int {
	if n.Indent > 0 {
		return n.Indent
	}
	return 2
}

// block emits a block collection whose entries start at column indent (0-based).
// The cursor is at the start of a line.
func (e *Emitter) block(n *Node, indent int) {
	switch n.Kind {
	case MapKind:
		for _, p := range n.Pairs {
			e.before(p.Before, indent)
			e.w(pad(indent))
			e.pair(p, indent, step(n))
		}
	case SeqKind:
		for i, it := range n.Items {
			if i < len(n.ItemBefore) {
				e.before(n.ItemBefore[i], indent)
			}
			e.w(pad(indent))
			e.seqItem(it, indent, step(n))
		}
	default:
		e.value(n, indent-1, true)
	}
}

// pair emits "key: value" with the cursor already at the key's column.
// indent is the key's column; st is the indentation step for nested blocks.
func (e *Emitter) pair(p Pair, indent, st int) {
	e.w(e.inlineScalar(p.Key))
	e.w(":")
	e.afterIndicator(p.Val, indent, st)
}

// afterIndicator emits a value that follows "key:" or "-" (cursor right after
// the indicator, no space written yet).
func (e *Emitter) afterIndicator(v *Node, indent, st int) {
	if v == nil {
		e.w("\n")
		return
	}
	pre := ""
	if v.Anchor != "" {
		pre = " &" + v.Anchor
	}
	if v.Tag != "" {
		pre += " " + v.Tag
	}
	switch v.Kind {
	case MapKind:
		if v.Flow {
			e.w(pre + " " + e.flow(v) + lineComment(v) + "\n")
			return
		}
		if len(v.Pairs) == 0 {
			e.w(pre + " {}\n")
			return
		}
		e.w(pre + lineComment(v) + "\n")
		e.block(v, indent+st)
	case SeqKind:
		if v.Flow {
			e.w(pre + " " + e.flow(v) + lineComment(v) + "\n")
			return
		}
		if len(v.Items) == 0 {
			e.w(pre + " []\n")
			return
		}
		e.w(pre + lineComment(v) + "\n")
		if v.Inline {
			e.block(v, indent)
		} else {
			e.block(v, indent+st)
		}
	case AliasKind:
		e.w(" *" + v.Alias + "\n")
	case RawKind:
		if v.Raw == "" {
			e.w("\n")
		} else {
			e.w(" " + v.Raw + "\n")
		}
	default:
		e.w(pre)
		e.w(" ")
		e.value(v, indent, false)
	}
}

func lineComment(v *Node) string {
	if v.LineComment == "" {
		return ""
	}
	return " # " + v.LineComment
}

// seqItem emits "- value" with the cursor at the dash column.
func (e *Emitter) seqItem(it *Node, indent, st int) {
	e.w("-")
	if it != nil && it.Kind == MapKind && !it.Flow && len(it.Pairs) > 0 && it.Anchor == "" {
		// compact form: first pair on the dash line; st-1 spaces after the dash
		// so that keys sit at column indent+st
		gap := max(1, st-1)
		if len(it.Pairs[0].Before) > 0 {
			// comments before the first key: put them on their own lines after "-"
			e.w("\n")
			e.block(it, indent+gap+1)
			return
		}
		e.w(pad(gap))
		for i, p := range it.Pairs {
			if i > 0 {
				e.before(p.Before, indent+gap+1)
				e.w(pad(indent + gap + 1))
			}
			e.pair(p, indent+gap+1, step(it))
		}
		return
	}
	e.afterIndicator(it, indent, max(2, st))
}

// value emits a scalar (cursor after "key: "), parentIndent = column of the
// parent key (continuation lines must be indented deeper than that).
func (e *Emitter) value(v *Node, parentIndent int, top bool) {
	cont := parentIndent + max(1, v.ContIndent)
	switch v.Style {
	case Plain, SingleQ, DoubleQ:
		open, clos := "", ""
		enc := func(s string) string { return s }
		switch v.Style {
		case SingleQ:
			open, clos = "'", "'"
			enc = func(s string) string { return strings.ReplaceAll(s, "'", "''") }
		case DoubleQ:
			open, clos = `"`, `"`
			enc = func(s string) string { return dqEscape(s, v.Escapes) }
		}
		e.w(open)
		for i, l := range v.Lines {
			if i > 0 {
				if v.BackslashCont && v.Style == DoubleQ {
					if v.Joinless {
						e.w("\\")
					} else {
						e.w(" \\")
					}
				}
				e.w("\n")
				if l != "" {
					e.w(pad(cont))
				}
			}
			e.w(enc(l))
		}
		e.w(clos)
		if len(v.Lines) == 1 || v.Style != Plain {
			e.w(lineComment(v))
		}
		e.w("\n")
	case Literal, Folded:
		ind := "|"
		if v.Style == Folded {
			ind = ">"
		}
		hdr := ind
		if v.IndentInd > 0 {
			hdr += fmt.Sprint(v.IndentInd)
			cont = max(0, parentIndent) + v.IndentInd
			if top {
				cont = v.IndentInd
			}
		}
		hdr += v.Chomp
		e.w(hdr + lineComment(v) + "\n")
		for _, l := range v.Lines {
			if l == "" {
				e.w("\n")
			} else {
				e.w(pad(cont) + l + "\n")
			}
		}
		for i := 0; i < v.TrailBlank; i++ {
			e.w("\n")
		}
	}
}

func dqEscape(s string, extra map[string]string) string {
	var b strings.Builder
	for _, r := range s {
		c := string(r)
		switch {
		case c == `"`:
			b.WriteString(`\"`)
		case c == `\`:
			b.WriteString(`\\`)
		case extra != nil && extra[c] != "":
			b.WriteString(extra[c])
		case r == '\n':
			b.WriteString(`\n`)
		case r == '\t':
			b.WriteString(`\t`)
		case r == 0x1b:
			b.WriteString(`\e`)
		case r < 0x20 || r == 0x7f:
			b.WriteString(fmt.Sprintf(`\x%02x`, r))
		case r == 0x85:
			b.WriteString(`\N`)
		case r == 0xa0:
			b.WriteString(`\_`)
		case r == 0x2028:
			b.WriteString(`\L`)
		case r == 0x2029:
			b.WriteString(`\P`)
		default:
			b.WriteRune(r)
		}
	}
	return b.String()
}

// inlineScalar renders a single-line scalar (keys, flow members).
func (e *Emitter) inlineScalar(n *Node) string {
	if n == nil {
		return ""
	}
	if n.Kind == RawKind {
		return n.Raw
	}
	if n.Kind == AliasKind {
		return "*" + n.Alias
	}
	if n.Kind == MapKind || n.Kind == SeqKind {
		return e.flow(n)
	}
	s := strings.Join(n.Lines, " ")
	pre := ""
	if n.Anchor != "" {
		pre = "&" + n.Anchor + " "
	}
	switch n.Style {
	case SingleQ:
		return pre + "'" + strings.ReplaceAll(s, "'", "''") + "'"
	case DoubleQ:
		return pre + `"` + dqEscape(s, n.Escapes) + `"`
	default:
		return pre + s
	}
}

func (e *Emitter) flow(n *Node) string {
	switch n.Kind {
	case MapKind:
		parts := make([]string, 0, len(n.Pairs))
		for _, p := range n.Pairs {
			parts = append(parts, e.inlineScalar(p.Key)+": "+e.inlineScalar(p.Val))
		}
		return "{" + strings.Join(parts, ", ") + "}"
	case SeqKind:
		parts := make([]string, 0, len(n.Items))
		for _, it := range n.Items {
			parts = append(parts, e.inlineScalar(it))
		}
		return "[" + strings.Join(parts, ", ") + "]"
	}
	return e.inlineScalar(n)
}
