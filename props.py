"""Per-property configuration shared by ./check and tools/mkmanifest.py.

stages: each stage is one `go test -run <regex>` selection of the property's
package, run over `shards` processes; `checks` is the total number of rapid
cases (split over the shards); stages without `checks` are plain Go tests that
size themselves from VERIF_TIER / VERIF_SHARD(S).
"""

PROPS = {}


def prop(pid, **kw):
    PROPS[pid] = kw


# per-property files live in props.d/*.py and call prop(...)


def _load():
    import glob
    import os
    here = os.path.dirname(os.path.abspath(__file__))
    for f in sorted(glob.glob(os.path.join(here, "props.d", "*.py"))):
        exec(compile(open(f).read(), f, "exec"), {"prop": prop})


_load()
