prop(
    "C05",
    pkg="c05",
    title="Exit status is non-zero exactly when a problem reaches the fail-on severity",
    technique="property-based testing (rapid) driving the real pint binary: reference oracle (the run's own --json report "
              "vs its exit status) + metamorphic relations over --fail-on / --min-severity / --show-duplicates / --workers",
    level="exploration",
    design_ref="DESIGN.md 2/C05",
    needs_bin=True,
    stages=[
        dict(run="^TestPropLintExit$",
             quick=dict(checks=480, shards=8, timeout=600),
             thorough=dict(checks=5600, shards=16, timeout=3600)),
        dict(run="^TestPropCIExit$",
             quick=dict(checks=96, shards=8, timeout=600),
             thorough=dict(checks=640, shards=16, timeout=3600)),
    ],
    rule="one evaluation = one invocation of the real binary. Each generated case (1-4 valid-vocabulary rule files incl. "
         "files/rules with parse failures and symlinks, x a generated .pint.hcl whose rule{} blocks give info/warning/bug/fatal "
         "severities to annotation/label/for/keep_firing_for/name/aggregate/reject/report checks; two thirds of the configs add a "
         "'severity ladder': 2-3 rule{} blocks configuring the SAME check (same key/options/comment, so the same problem text) at "
         "different severities, split by label value / kind / name / path or overlapping; a fifth of the lint and ci inputs add a file with one physical line of 70-100 KiB (regexp alternation in an expr, a comment, an annotation) that always carries a Warning; groups carry 0-8 group-level labels, rules "
         "a `team: <rule name>` label checked against {{ $alert }}) is run 8-9 times: --fail-on in "
         "{absent, info, warning, bug, fatal} plus repeats at one threshold, each with independently drawn --min-severity, --show-duplicates, report files (--json, --checkstyle, both, neither; runs "
         "without a JSON of their own are judged against the JSON of another run of the same input), --no-color on/off, -l debug/warn/error, "
         "--workers; `pint ci` cases build a two-commit git repository (base branch + one change commit). "
         "Non-trivial: the run completed linting, its report holds >= 2 distinct severities and at least one severity strictly "
         "below the fail-on threshold. Runs that fail before linting completes (no decodable --json file: bad flag, config "
         "error, crash) are discarded and counted - except a `pint ci` run that dies before any check ran for a reason that is neither "
         "configuration, flags nor an empty file set while `pint lint *` completes on the same tree: that is a violation.",
    level_text="Generated-input search against an executable reference: for every completed run, exit != 0 iff the run's own "
               "--json report lists a problem at or above the threshold; across runs of one input the status must not move with "
               "--min-severity / --show-duplicates / --workers and must be monotone in --fail-on. Held on N invocations; no proof "
               "of absence.",
    level_note="The JSON reporter and the exit decision read the same in-memory summary; a defect that corrupts both identically "
               "(e.g. a report lost before either sees it) is out of reach here (C11 compares outputs across schedules). 'Completed "
               "linting' is decided by the presence of a decodable --json file, which pint writes only after all checks ran and "
               "flags were validated.",
    assumptions=["a decodable --json report file means linting completed", "the JSON reporter lists every report irrespective of --min-severity and duplicate folding"],
)
