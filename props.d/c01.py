prop(
    "C01",
    pkg="c01",
    title="A file pint passes in strict mode is loadable by Prometheus",
    technique="property-based testing (rapid) + native coverage-guided fuzzing (go test -fuzz, thorough tier): one-directional differential against Prometheus' own rulefmt.Parse on identical bytes",
    level="exploration",
    design_ref="DESIGN.md 2/C01",
    stages=[
        dict(run="^TestPropStrictImpliesLoadable$",
             quick=dict(checks=64000, shards=16, timeout=900),
             thorough=dict(checks=2400000, shards=16, timeout=7200)),
        dict(run="^$", fuzz="FuzzStrict", thorough=dict(fuzztime="600s", timeout=1500)),
    ],
    rule="structural rule documents (ruledoc x yamlstyle) with 0-3 tree perturbations per document - every field independently given an invalid value, "
         "mistyped (int/bool/null/list/map/tagged), duplicated, removed, renamed or joined by an unknown key; containers retyped; groups duplicated; anchors, aliases "
         "and merge keys; invalid label/annotation names - plus 0-2 line/byte mutations (delete/duplicate/swap/re-indent lines, tabs, '---', junk bytes, CRLF, splice); "
         "both name validation schemes; documents containing a pint comment are discarded. pintPass = strict parser + default offline checks give no Bug/Fatal "
         "problem and no panic; promOK = rulefmt.Parse(bytes,false) has no error; violation = pintPass and not promOK. Non-trivial: Prometheus refuses the file "
         "(the implication is not vacuous); classes = normalised first Prometheus error.",
    level_text="Generated-input search (rapid, fixed seeds) with Prometheus' own loader (pinned v0.303.0, the version pint is built against) as oracle; the evidence reports "
               "the four-way acceptance table and the distribution of Prometheus error classes reached.",
    level_note="Both sides see identical bytes under the same global name validation scheme. pint being stricter than Prometheus is allowed and only counted. "
               "Thanos schema is excluded (partial_response_strategy is refused by Prometheus by design).",
    assumptions=["rulefmt.Parse v0.303.0 is the reference for 'Prometheus accepts'"],
)
