prop(
    "C16",
    pkg="c16",
    title="promql/series verdicts agree with what the server actually holds",
    technique="property-based testing (rapid): pint's promql/series check probes an engine-backed fake Prometheus API (real PromQL "
              "engine over a generated in-memory database); the oracle evaluates the same database with the same engine directly",
    level="exploration",
    design_ref="DESIGN.md 2/C16",
    stages=[
        dict(run="^TestPropSeries$",
             quick=dict(checks=6400, shards=16, timeout=900),
             thorough=dict(checks=160000, shards=16, timeout=7200)),
    ],
    rule="each case = one rule whose expression is built from 1-3 selectors over metrics foo bar baz and labels a b (all four matcher "
         "types, {__name__=...} form) wrapped in functions / aggregations / comparisons and joined by arithmetic, comparison and `and` "
         "operators (with on/ignoring/group_left; no or/unless/absent/vector fallback) x a database giving every metric one of 11 "
         "presence patterns on a 1-minute grid reaching 1 h past now (present now, started late, never, ended long ago, only before "
         "the lookback window (solid / intermittent), present with other label values, disappeared > min-age ago, disappeared recently, "
         "intermittent on-now / off-now) and an uptime metric that is complete / has a gap / is missing x other recording rules that "
         "do or do not produce a metric x exemptions (disable / snooze / file-level / rule/set comments with check-wide, server, tag "
         "and selector targets, ignoreMetrics) x lookback 3h-12h (thorough: also 24h and the 7d default). Oracles: (1) selector "
         "currently returns series => no 'query on nonexistent series' problem points at it; (2) metric has no sample in the lookback "
         "window, no rule of the file records it, no exemption covers the selector => a Bug points at it. Non-trivial: >= 2 distinct "
         "selectors whose metrics have different presence patterns.",
    level_text="Generated-input search (rapid, fixed seeds). pint's probes are answered by the real Prometheus PromQL engine "
               "(promql.NewEngine) over the case's database; the oracle asks the same engine directly (instant query for presence, "
               "count_over_time over the window for emptiness) before and after the run and requires both answers to agree. Says the two "
               "clauses held on the explored cases; no proof of absence.",
    level_note="The fake server implements the query, query_range, config, flags and metadata endpoints only; one Prometheus server is "
               "configured, so the 'found on other servers' branch is not exercised. All pattern boundaries stay >= 10 minutes away from "
               "now and from every threshold (staleness, min-age, window start), so verdicts are stable while a case runs; cases where the "
               "two oracle probes disagree are skipped and counted. Exemption semantics follow docs/checks/promql/series.md (a comment "
               "selector covers a query selector when all of its matchers, including the metric name, appear on it).",
    known_note="Cases whose every clause-(2) miss concerns a metric with no sample inside [now-lookback, now] but at least one inside the "
               "slice-alignment zone (from the 2h slice-grid instant at or before now-lookback up to now-lookback; computed from the case's "
               "database) are routed to the listed known finding 'samples-just-before-lookback-window' and counted (counters "
               "known_class_cases, selectors_must_be_reported_with_samples_in_alignment_zone); the patterns that produce them stay in the generator.",
    assumptions=["the lookback window is [now - lookbackRange, now] as documented",
                 "a promql/series problem 'points at' a selector when its first diagnostic's column range overlaps the selector's position"],
)
