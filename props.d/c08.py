prop(
    "C08",
    pkg="c08",
    title="Every check is switched on and off by the name it reports under",
    technique="property-based testing (rapid): metamorphic relation between a baseline lint run and the same run with one check "
              "name disabled/enabled through each mechanism or --offline, against an engine-backed fake Prometheus API; "
              "in-process pipeline plus the real binary's CLI flags",
    level="exploration",
    design_ref="DESIGN.md 2/C08",
    needs_bin=True,
    stages=[
        dict(run="^TestPropToggle$",
             quick=dict(checks=16, shards=16, timeout=900, shrinktime="8s"),
             thorough=dict(checks=480, shards=16, timeout=7200)),
        dict(run="^TestPropBinary$",
             quick=dict(checks=4, shards=4, timeout=900, shrinktime="8s"),
             thorough=dict(checks=64, shards=16, timeout=7200)),
        dict(run="^TestPropBinaryCI$",
             quick=dict(checks=4, shards=4, timeout=900, shrinktime="8s"),
             thorough=dict(checks=64, shards=16, timeout=7200)),
    ],
    rule="each generated document = a pint configuration enabling every configurable check kind (aggregate, annotation, label, cost, "
         "alerts, reject, link, for, keep_firing_for, name, range_query, report; spread over 1-4 rule{} blocks, random severities, 1-2 "
         "prometheus blocks pointing at the fake server, the command in the context drawn from none/lint/ci/watch, every file's entries in a drawn "
         "change state (unmodified/added/modified/renamed; a removed file for rule/dependency), check-defining rule blocks with or "
         "without match{state=[...]} (state any / unmodified ... - under ci a block without state skips unmodified rules), "
         "sometimes a pre-disabled other check, and 0-2 baseline `rule { [match { kind, state }] enable = [X] }` / `rule { ... disable = [X] }` "
         "blocks with X sometimes also listed in checks{disabled}; their expectation follows docs/configuration.md: a matching enable block "
         "overrides the global disabled list - also what --disabled/--offline add to it -, disable beats enable, an enabled list admits "
         "only the listed name) + 1-5 rule files made of rules written to "
         "trigger every reporter (plus a removed file for rule/dependency and a broken file for parse errors); EVERY document is tested "
         "against all 27 names x {checks{disabled}, --disabled, rule{disable}, checks{enabled}, --enabled} + --offline (137 evaluations "
         "per document incl. the default-enabled-list reference relation: default run == run with checks{enabled=[]}; the binary stages - `pint lint` and `pint ci` on a tiny git repository whose feature branch adds the rule files and removes one - : 57 per document incl. `--offline` == `--disabled <every online name>`). Problems are compared as multisets keyed (file, rule, rule line, reporter, "
         "summary, severity). Non-trivial: the name N reports at least one problem in the baseline and at least one other reporter does "
         "too (offline: both an online and an offline reporter present).",
    level_text="Generated-input search (rapid, fixed seeds) with a metamorphic oracle: the expected problem list of every variant is computed "
               "from the baseline list by the property's own wording (remove reporter N / keep only reporter N plus parse errors / remove "
               "the documented online reporters). Also checks Meta().Online against checks.OnlineChecks and against the documented list "
               "for every check instance the configuration produces. Says the relation held on the explored documents; no proof of absence.",
    level_note="Online checks are answered by the real PromQL engine over a fixed small database (harness/promsrv); their verdicts only "
               "need to be stable between the two runs, which they are because data extends one hour past now. Diagnostic message text "
               "(time-dependent) is not compared. The in-process pipeline mirrors cmd/pint/scan.go serially; the binary stage runs the "
               "same relations through the real CLI flags.",
    assumptions=["the documented online list is the one in docs/checks/* (hard-coded in the test, compared with checks.OnlineChecks)",
                 "yaml/parse, pint/comment, ignore/file and rule/owner problems are unconditional (AlwaysEnabled)"],
)
