prop(
    "C14",
    pkg="c14",
    title="Identical questions reach a Prometheus server once; concurrency stays bounded",
    technique="stateful model-based testing (rapid Repeat state machine) with a harness-owned server schedule (gated fake Prometheus) "
              "+ free-running stress with drawn server delays + the same stress under the Go race detector",
    level="exploration",
    design_ref="DESIGN.md 2/C14",
    stages=[
        dict(run="^TestPropMachine$",
             quick=dict(checks=320, shards=8, timeout=900, steps=30, shrinktime='8s'),
             thorough=dict(checks=12000, shards=16, timeout=7200, steps=40)),
        dict(run="^TestPropOverlapWindows$",
             quick=dict(checks=64, shards=8, timeout=900, shrinktime='8s'),
             thorough=dict(checks=3200, shards=16, timeout=7200)),
        dict(run="^TestPropConfigBuilt$",
             quick=dict(checks=96, shards=8, timeout=900, shrinktime='8s'),
             thorough=dict(checks=8000, shards=16, timeout=3600)),
        dict(run="^TestPropStress$",
             quick=dict(checks=800, shards=8, timeout=900, shrinktime='8s'),
             thorough=dict(checks=120000, shards=16, timeout=7200)),
        dict(run="^TestStressRace$", race=True,
             quick=dict(checks=120, shards=4, timeout=900, shrinktime='8s'),
             thorough=dict(checks=32000, shards=16, timeout=7200)),
    ],
    rule="machine: FailoverGroup with one upstream (shared cache on), concurrency in {1,2,3,8}, rateLimit 1e6/s, 3-4 distinct questions "
         "drawn from {2 instant queries, range queries with fixed instants over two expressions, config, flags, 2 metadata}; range questions may share "
         "their expression and step while asking about different windows: 1/2/3/5 whole slices from 00:00, [0,1h] vs [0,1h30] (same start, other end, "
         "unsliced), [m*2h, m*2h+1h30] (starts where the trailing slice of an (m+1)-slice window starts); range answers are multi-series; for the 'gappy' expressions g1/g2 they differ per slice in number, labels and sort order of their series "
         "and never merge across a slice boundary; at the end every successful range caller's FULL result (all series and ranges) is compared with the fold of "
         "what the server actually answered for the slices of its window (also for callers served from the cache after the first one completed); "
         "every range caller's result must be exactly "
         "what the fake answered for ITS window (the fake puts a sample on every requested grid point, so the merged range is determined by "
         "start/end/step: an answer computed for another window does not fit); about 30-40 actions per "
         "sequence from {start a caller (<=12 unfinished), release one blocked request with success, release one with an error "
         "(500 plain / bad_data / execution / server_error), advance}; the fake server blocks every request until released. After every action: "
         "no question key twice in flight, in flight <= concurrency, no key asked again after a successful answer, no caller panicked; at the end "
         "everything is released and every caller must return (quiescence rule: nothing in flight, all released, still blocked after 20 s, "
         "reproduced on a second run of the same action list), and all successful callers of a question hold equal results (answers carry a "
         "per-request nonce). Non-trivial: at some step >=2 callers of one question were unfinished while a request of it was in flight, and at some "
         "step >=2 distinct questions were in flight together. overlap scenario (same executor, scripted action lists): range query A over 2-3 slices and range query B over a window "
         "that evaluates exactly the points of A's first slice (same expr and step: the only way two jobs with one key sit in the pool), concurrency = "
         "slices+1..2, as many other questions queued as there are workers, then a slice of A fails (the shared one, or another one so that A cancels the "
         "shared one), then drawn releases; same invariants (non-trivial there: the pool was full and the client cancelled a request). config-built servers: a .pint.hcl with a static prometheus{} block or a discovery{filepath{template{}}} block carrying "
         "concurrency = N (1,2,3,5,8) is loaded with config.Load, the server is created by PrometheusGenerator (GenerateStatic / GenerateDynamic), 8-30 callers "
         "ask distinct instant queries at once against the free-running fake (2-15 ms per answer): never more than N in flight, every question once. "
         "stress: 3-12 callers x 2-6 waves of the same questions (fresh names per wave), "
         "drawn per-request delays 0-3 ms, GOMAXPROCS in {1,4,16}, optionally every 4th/7th non-range request fails; same counters plus "
         "in half of the schedules cache maintenance runs concurrently (FailoverGroup.CleanCache() looping in its own goroutine, 0-400 unrelated "
         "answers cached beforehand) while every caller asks all - by then answered - questions 1-4 more times; "
         "'every key seen exactly once' when nothing fails, the same per-window answer check, and additionally windows of one expression that have "
         "whole slices in common ([0,5h-5m], [0,5h30], [2h,6h], 2/3/5-slice windows from 00:00). Non-trivial (stress): >=2 distinct questions were in flight together. "
         "race: the stress property re-run in a child process of the race-enabled test binary; a DATA RACE report naming internal/promapi is a failure.",
    level_text="Generated-schedule search: the order in which the server answers is drawn and enforced by the harness (every request is held), so "
               "server-visible interleavings of callers and answers are explored systematically; interleavings inside pint's critical sections are only "
               "sampled (stress, race detector). Says the invariants held on N action sequences / stress schedules; no proof over all schedules.",
    level_note="Known-finding classes (both decided from the case + the request concerned, never from text; tolerated only when listed in "
               "known_findings.json, otherwise violations; the rest of such a schedule is still judged): identical-slice-of-two-windows - two windows of one "
               "expression/step have a whole slice in common and that identical slice request is in flight / reaches the server once per window (callers "
               "of one window may then hold different answers for it); window-end-on-slice-boundary - a window ending exactly on a 2h boundary shares a cache "
               "entry with the interior slice [end-2h, end-1s] of a longer window (CacheKey rounds the end to the step). Windows with common slices are "
               "generated in the stress layers only: the state machine's scheduler model assumes one request per slice. "
               "An error is released for a range slice only when no slice of that query is still queued on the client side (all its slices are in flight "
               "or were answered before): otherwise pint's worker can start a queued slice a moment before the failed query's cancel() lands, and the "
               "harness could not tell that short-lived request from one somebody waits for. Sequences that contained such cancellations are judged on "
               "reproduction (the action list must fail again in one of two further runs), others immediately. Successful range-slice answers are sent with "
               "Connection: close and the harness waits for the client to close, i.e. until pint has decoded the slice. Requests the client cancelled are not "
               "counted as in flight once net/http has seen the connection go. A data-race report cannot be replayed; its replay file holds the report text.",
    assumptions=["the in-flight count kept by the fake server is a lower bound of pint's own (incremented after the request was read, decremented before the answer is written)",
                 "cache lifetimes (>=1 min for every kind) exceed the length of a sequence (<2 s)",
                 "slowness is never a verdict: settle waits that time out only make later picks less controlled; blocked callers count only under the quiescence rule"],
)
