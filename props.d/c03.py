prop(
    "C03",
    pkg="c03",
    title="pint ci classifies every rule's change state correctly for any branch history",
    technique="stateful property-based testing (rapid): generated git histories built with real git, reference "
              "classification from the generator's own file/rule ledger, pint's discovery run in-process and through the real binary",
    level="exploration",
    design_ref="DESIGN.md 2/C03",
    needs_bin=True,
    stages=[
        dict(run="^TestPropHistory$",
             quick=dict(checks=960, shards=16, timeout=1800, shrinktime="15s"),
             thorough=dict(checks=32000, shards=16, timeout=10800, shrinktime="60s")),
    ],
    rule="a history = 1-2 commits on main (1-4 rule files x 1-5 rules over a small vocabulary, names repeat on purpose), a branch of 1-6 "
         "commits (each: a pure file rename in its own commit, a rename combined with one edit, or 1-3 of: add/delete/re-add file, "
         "add/modify(expr,label,annotation,for,keep_firing_for,control comment,name)/delete/duplicate/swap rule, comment-, blank-line-, "
         "quoting-, key-order- and indentation-only edits, file/disable add/remove/reorder, revert of a file to its fork-point version), "
         "a rule-trim commit changes ONE rule only by deleting whole lines of it, nothing else in the file changing (last key, last or "
         "only label/annotation entry, last line of a literal-block expression; or a middle line: control comment, a key followed by "
         "others, a non-last map entry, first/middle expression line), the rule drawn uniformly over first/middle/last positions; "
         "one generated file in five also holds a rule with a rule-level defect (recording rule with for/annotations, alert without expr, "
         "alert+record, duplicated key, bad label name/value; added/removed on the branch too): it is not judged itself, the valid rules "
         "around it are; "
         "one history in two additionally holds a directed chain on ONE file: 2-4 consecutive steps (own commits) from {pure rename, edit, "
         "exact revert of the previous edit, rename back, delete + re-add with the same content, comment/whitespace-only edit with or "
         "without revert}, placed last in half of the cases, so that files byte-identical to their base version after a non-trivial path "
         "history (samebytes-moved / samebytes-touched) and files at the same path with other bytes but identical rules "
         "(samerules-newbytes) are frequent and counted in the class histogram; "
         "about half of the cases run under a parser { include / exclude } configuration drawn from six filters over the path vocabulary "
         "(in-process through the PathFilter, in the binary through the config file); renames then prefer (1 in 2) a target on the other "
         "side of the filter boundary, files outside are edited like any other; the reference is computed on the history projected through "
         "the filter (files outside do not exist, rename to outside = deletion, rename from outside = creation whose rules must all be "
         "changed rules); the path pool holds a file 'alerts' and a file 'alerts/g.yaml' that exclude each other, and a file-dir commit pair "
         "deletes one and creates the other in the next commit (file replaced by a directory of its name and the reverse); "
         "one case in four runs with parser { relaxed = [...] } matching every path of the vocabulary (but not the empty string): files "
         "may then be bare rule lists (valid only in relaxed mode) and a cosmetic edit may switch a file between the grouped and the bare "
         "form; a path-reuse sequence uses one path three times (delete P; rename Q->P; rename P->Z; re-create P with its fork-point or an "
         "edited content - the re-creation revives the original P); "
         "and optionally 1-2 further commits on main after the fork. Built with git fast-import + checkout in a scratch repository; "
         "pint's GlobFinder + GitBranchFinder (as wired in cmd/pint/ci.go) classify every HEAD rule; the reference compares each HEAD "
         "file with the fork-point version of its origin (followed through the branch's renames) by rule content with multiplicities; "
         "GetChecksForEntry(ci) must give the default check set to exactly the changed rules; one history in six also runs the real "
         "`pint ci --json` with one rule{match{state}} report{} block per state. Non-trivial: >= 2 branch commits or a rename, and some "
         "HEAD file holds both a changed and an unchanged rule.",
    level_text="Generated-input search (rapid, fixed seeds) over git histories against a reference model kept by the generator "
               "(file origins through renames, fork-point content per rule). Says the classification agreed on N generated "
               "histories; no proof of absence.",
    level_note="Branch names are drawn per case (feature: feature, fix/main, user/x/main, main2, xmain, release/1.0, fix/master, "
               "topic/feature; base: main, master; base given by --base-branch, by ci{baseBranch} or as origin/<base> with a "
               "remote-tracking ref); the feature branch is never the base branch, and every case whose feature branch ends in "
               "/<base> goes through the real binary (whether `pint ci` runs at all is decided from the names in cmd/pint). "
               "Trusts git's exact-rename detection (pure renames are alone in their commit; files are never created and deleted in "
               "the same commit) and the harness' YAML renderer (every rule's first line is cross-checked against pint's parse; a "
               "mismatch is reported as inconclusive, not as a violation). Where the statement does not determine one answer the "
               "reference accepts a set: several rules of one kind+name on a side (added/modified), a changed rule in a renamed file "
               "(renamed/modified), rename combined with an edit (git's similarity heuristic: renamed or new file), a file "
               "renamed into the parser filter on the branch (added / renamed / modified, never unmodified; this includes a file that left the filter and came "
               "back: it is a different file from the one deleted at that path, whose track stays dormant and is revived only by a "
               "plain re-creation). A path re-created after its file was renamed away is a new file (strict). A rename "
               "onto a path deleted earlier on the branch is followed strictly (origin = rename source). The changed / not-changed split is "
               "always enforced with multiplicities. Group-level attributes (labels, interval) are never edited: the statement lists "
               "rule content only.",
    assumptions=["git 2.39 reports a byte-identical delete+create in one commit as R100",
                 "commit messages never contain [skip ci] / [no ci]; no symlinks, no type changes",
                 "expression text is compared as the YAML scalar value (whitespace inside an expression counts as a change, so such edits are not generated as 'whitespace-only')"],
)
