prop(
    "C09",
    pkg="c09",
    title="rule{} match/ignore blocks select rules by their documented boolean meaning",
    technique="property-based testing (rapid): generated configurations x rule files x command x state against a reference "
              "evaluator written from docs/configuration.md; plus a real-binary layer that runs pint lint / ci / watch",
    level="exploration",
    design_ref="DESIGN.md 2/C09",
    needs_bin=True,
    stages=[
        dict(run="^TestPropSelect$",
             quick=dict(checks=24000, shards=16, timeout=600),
             thorough=dict(checks=800000, shards=16, timeout=7200)),
        dict(run="^TestPropBinaryCommands$",
             # no shrinking: every execution starts the real binary several times (a watch run takes seconds) and
             # rapid only looks at its shrink deadline between passes; the cases are small as generated
             quick=dict(checks=48, shards=16, timeout=900, shrinktime="0s"),
             thorough=dict(checks=960, shards=16, timeout=7200, shrinktime="0s")),
    ],
    rule="1-4 rule{} blocks, each with 0-3 match and 0-3 ignore sub-blocks of 1-4 conditions over all nine kinds (path, name, kind, "
         "label, annotation, for, keep_firing_for, command, state; regexps from pools with partial-match traps, alternations, inner "
         "anchors, flags) and one marker check per block (distinct String() by default; in about 40% of the cases a block repeats an "
         "earlier block's check definition verbatim, so pint's de-duplication by String() is exercised), x 1-2 rule files (1-2 groups, group labels half of "
         "the time, 1-3 rules over the small gen vocabulary) (a third of the cases reach one more rule file through a symbolic link - file or directory link, target inside or outside the linted tree, link or its directory handed to pint's real GlobFinder - with path conditions that tell link and target apart; path conditions are matched against the name the file was found under) x 2-4 drawn (command, entry state) pairs from {lint, ci, watch} x {noop, added, "
         "modified, moved}; each distinct marker check must be returned by config.GetChecksForEntry exactly once iff at least one block "
         "carrying it applies; this is compared with a reference evaluator of the "
         "documented semantics that works from the generator's own model of the rules. Non-trivial: some rule block has a match and "
         "an ignore sub-block with >= 2 conditions each, and over the case at least one (rule, block, command, state) is selected "
         "and one rejected.",
    rule_binary="TestPropBinaryCommands: 2-4 rule{} blocks whose match/ignore sub-blocks use command (plus kind / name) conditions, each "
                "with an observable marker check (required label / required annotation / name / for), one rule file of 2-4 rules, run through "
                "the real binary as `pint lint`, `pint ci` (tiny git repository) and `pint watch glob` (own loopback port, /metrics read once "
                "the collector's pint_problems gauge appears); the marker problems per (rule, block) must match the reference evaluator for the "
                "command the binary was started as. Half of the binary cases find the rule file through the symlink rules/1.yml -> ../common/1.yml (lint and watch) with path conditions on rules/ vs common/. A disagreement must be observed twice; unobservable runs are inconclusive (counted).",
    level_text="Generated-input search (rapid, fixed seeds) against an independent reference evaluator of the documented "
               "match/ignore semantics. Says the selection agreed on N generated (configuration, rule files, 2-4 (command, state) pairs) "
               "cases, for every rule x rule block of the case; no proof of absence.",
    level_note="Only syntactically valid regexps and durations are generated (validation is C18's subject); removed-state entries are "
               "excluded (no configurable check runs on them). A rule block without match sub-blocks is read as one empty match "
               "sub-block carrying the command's default state (the documentation's own example for `state = [\"any\"]` says so); "
               "ignore sub-blocks get no default state ('all conditions defined on ignore'). ignore sub-blocks whose only "
               "condition is keep_firing_for are not generated: pint rejects them at load time. Only the marker checks' names are "
               "enabled (as with --enabled), which spares pint the evaluation of every rule block for each built-in check.",
    assumptions=["Go's regexp package and prometheus/common ParseDuration are trusted as the meaning of 'regexp' and 'duration'",
                 "the harness' HCL renderer is checked against pint's decoded Match structs on every case (self-check, not oracle)"],
)
