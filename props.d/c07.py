prop(
    "C07",
    pkg="c07",
    title="Control comments suppress exactly the targeted check on the targeted rules",
    technique="property-based testing (rapid): two-run metamorphic relation (problems with comment == baseline minus targeted slice), plus the real pint watch daemon observed across a snooze expiry",
    level="exploration",
    design_ref="DESIGN.md 2/C07",
    stages=[
        dict(run="^TestPropComments$",
             quick=dict(checks=9600, shards=16, timeout=900),
             thorough=dict(checks=400000, shards=16, timeout=7200)),
        dict(run="^TestPropWatchSnoozeExpiry$",
             quick=dict(checks=16, shards=8, timeout=900),
             thorough=dict(checks=160, shards=16, timeout=3600)),
    ],
    needs_bin=True,
    rule="generated rule files (all YAML styles) x generated config (2-6 rule{} blocks out of label/annotation/for/keep_firing_for/name/aggregate/reject/report, "
         "some locked) -> baseline problems from the default offline checks and the configured ones; a (rule, check) pair is drawn from the baseline report; "
         "x comment form (disable, snooze future/past in RFC3339 or date form, file/disable, file/snooze future/past) x spelling (reporter name or check String()) "
         "x placement (own line above the rule, between two fields, trailing on a rule line; file forms also at the top). File A has the control comment, "
         "file B an inert comment at the same place; oracle: problems(A) == problems(B) minus the problems of that check on that rule (all rules for file forms), "
         "nothing removed for expired snoozes and for rule-level comments aimed at a check from a locked block. "
         "Watch layer: the real binary runs as `pint watch --interval=1s` on a rule snoozed (snooze / file/snooze, three date layouts) until 5-8 s "
         "after the daemon started plus an identical control rule; /metrics must show the targeted check silent on the snoozed rule before the expiry and "
         "reporting on it once three scans that started after the expiry have finished (a daemon too slow to be observed is inconclusive, never a violation). "
         "Non-trivial: baseline has >=2 problems and the slice is non-empty (or the case is a must-change-nothing form).",
    level_text="Generated-input search (rapid, fixed seeds) with a metamorphic oracle over the full problem list (entry, reporter, check instance, summary, severity, "
               "lines, diagnostics). Held on N generated (file, config, comment) triples.",
    level_note="Timestamps are 2000-01-01 / 2099-01-01 so the verdict does not depend on the clock (the watch layer is the exception: expiry while running is its subject). File-level forms are only generated with configs that have no "
               "locked block (the statement does not define that combination). Trailing placement only on lines holding a complete single-line scalar.",
    assumptions=["an inert comment at the same place changes nothing but is line-number compatible (YAML semantics)"],
)
