prop(
    "C15",
    pkg="c15",
    title="Failover happens on unavailability only, and outages degrade to warnings",
    technique="fault injection over a finite fault table: rapid-drawn cells (quick) / full enumeration (thorough) of fault mode per upstream x "
              "endpoint x required, against per-upstream request logs of fault-injecting fake Prometheus servers; plus rapid-generated rules "
              "through every online check against an all-unavailable failover group",
    level="fault_enumeration",
    exhaustive_when=dict(tier="thorough", run="table_cells_run", total="table_cells_total"),
    design_ref="DESIGN.md 2/C15",
    stages=[
        dict(run="^TestPropFailover$",
             quick=dict(checks=320, shards=16, timeout=900, shrinktime='10s'),
             thorough=dict(checks=4800, shards=16, timeout=3600)),
        dict(run="^TestPropFailoverSeq$",
             quick=dict(checks=256, shards=16, timeout=900, shrinktime='10s'),
             thorough=dict(checks=6400, shards=16, timeout=3600)),
        dict(run="^TestPropSliceFaults$",
             quick=dict(checks=320, shards=8, timeout=900, shrinktime='10s'),
             thorough=dict(checks=16000, shards=16, timeout=3600)),
        dict(run="^TestPropSlowHealthy$",
             quick=dict(checks=48, shards=16, timeout=900, shrinktime='10s'),
             thorough=dict(checks=800, shards=16, timeout=3600)),
        dict(run="^TestPropChecks$",
             quick=dict(checks=440, shards=8, timeout=900),
             thorough=dict(checks=48000, shards=16, timeout=5400)),
        dict(run="^TestFaultTable$",
             thorough=dict(shards=16, timeout=3600)),
    ],
    rule="part 1: 1-6 upstreams (uri + 0-5 failover URIs; the thorough table enumerates 1-3 and adds every unavailability kind in front of a "
         "healthy last upstream for 4-6), each with one fault mode from {healthy, connection refused (socket bound, not listening), "
         "timeout (pint timeout 20 ms + its fixed 1 s, handler blocks until the client gives up), HTTP 500 plain, 503 plain, JSON server_error, "
         "bad_data 400, execution 422, 404, truncated body} x endpoint in {query, query_range (1 or 3 slices), config, flags, metadata} x required; one "
         "call through FailoverGroup; judged from each listening upstream's request log (contacted or not, order) and the returned answer/error. "
         "Non-trivial: >=2 upstreams, the first one unavailable and a later one not (a failover decision is actually taken). sequences: one LIVE "
         "failover group walked through 2-4 phases, each with its own fault assignment (per-upstream scripts such as timeout->healthy->healthy->timeout, "
         "5xx->healthy, refused->healthy, healthy->timeout, or drawn), 1-2 calls per phase, mostly the same request again, sometimes another endpoint or "
         "expression; the part-1 oracle applied per call to the contacts logged during that call, with pint's documented caching in mind: an upstream "
         "that already answered THIS request successfully may answer it again without being contacted; contact is demanded wherever no such answer "
         "exists. Non-trivial (sequences): some upstream recovered between phases and an answer was obtained after that. slice faults: a 2-6 slice range query through [upstream 0 "
         "with a per-slice fault table (503 / connection reset on some slices, the others answered; steps 2s-60s so that slice responses are large), healthy "
         "upstream 1]: if a requested slice of upstream 0 hit a fault, upstream 1 must be contacted and answer; otherwise upstream 0 answers. "
         "slow but healthy: upstream 0 answers every slice correctly after 30-45% of the client's "
         "timeout (300-500 ms), with 1-2 workers and enough slices that the whole query takes longer than timeout + 1 s; upstream 1 is healthy and instant: "
         "upstream 0 must answer and upstream 1 must not be contacted (judged only if the fake's own measured service times were all <= 60% of the timeout, "
         "else inconclusive). Fault modes are drawn by status CLASS: 5xx from {500,502,503,504,507,509,520-527,530,598,599} x body {empty, html, text, truncated JSON, "
         "JSON envelope with errorType server_error/internal/unavailable/not_found, JSON envelope without errorType}, 4xx from {400,401,403,404,408,413,"
         "422,429,499} x body kinds. part 2: 11 check "
         "constructors taking a Prometheus server (10 online checks + rule/duplicate) x generated alerting/recording rules (18 expressions covering "
         "absent, rate/irate/deriv, counters, vector matching, long ranges, plain selectors; for/labels/annotations variants) x the checks' documented settings (half of the cases: promql/series ignoreMetrics / lookbackRange / lookbackStep / "
         "ignoreLabelsValue through the context as the config block does, alerts/count range/step/resolve/minCount/severity/comment, query/cost limits/"
         "severity/comment, promql/range_query limit/severity/comment) and, for promql/series, `# pint disable promql/series(bar)` / `rule/set ... "
         "ignore/label-value|min-age` comments that cover only part of the rule (always matching a checked selector) x 1-3 upstreams all in "
         "{refused, 500, 503, server_error, timeout} x required: no panic, every problem is 'unable to run checks' with severity Warning (Bug iff "
         "required). Non-trivial (part 2): the check actually contacted an upstream. Classes: failover:<H|U|Q|T|N per upstream> and "
         "checks:<check>:<contacted|nocontact>:<reported|silent>.",
    level_text="Quick: rapid-drawn cells of the fault table. Thorough: every cell of the table listed above is executed once (TestFaultTable: "
               "1110 mode tuples x 12 endpoint/slices/required combinations = 13320 cells), i.e. the fault assignment space of the statement is "
               "enumerated; what is sampled rather than enumerated is timing (one run per cell) and, in part 2, the rules.",
    level_note="Known-finding classes (decided from the case and the request logs, never from text; tolerated and counted only while listed, and then the "
               "rest of the case is still judged; TestReplay ignores the listing): 5xx-json-envelope-without-error-type (mode http:<5xx>:jsonnotype: "
               "such an upstream may be treated either way) and slice-cancel-error-masks-unavailability (kind slicefaults, upstream 0 served a faulty and "
               "was asked a healthy slice, an error was returned and upstream 1 never contacted; timing dependent, so no second-run confirmation and the "
               "replay retries up to 40 times). Sequence cases: fake upstreams answer with Connection: close, the harness waits until every upstream has no open connection before "
               "each call, and requests the client had already dropped when the server read them (cancelled slices of a failed range query) are not "
               "counted as contacts - otherwise a request of the previous call could be booked on the next one. "
               "A refused upstream cannot log contacts (nothing listens); its contact is inferred only through the upstreams after it. A truncated 200 "
               "response is accepted as either unavailable (next upstream contacted) or as a final error of that upstream: the statement lists connection "
               "errors, timeouts and 5xx and does not place a connection that breaks mid-body. 404 on config/flags/metadata is pint's separate "
               "'unsupported API' feature: only no-crash is checked there (class unsupported-api:*). rule/link is online but talks to the linked URLs, not "
               "to a Prometheus server, and is not part of part 2. coverage.exhaustive is set by the driver for the thorough tier when counters table_cells_run == table_cells_total (the whole fault table ran).",
    assumptions=["unavailability = {connection refused, timeout, HTTP 500/503 with unparsable body, JSON errorType server_error}; query-caused = {bad_data, execution, 404 on query endpoints}",
                 "pint-side timeout is 20 ms only on upstreams in timeout mode, 30 s elsewhere, so a busy machine cannot turn a healthy upstream into a timeout",
                 "a call that takes more than 120 s (part 2: 180 s) is inconclusive, never a violation",
                 "a failing cell must fail again on an immediate second run with fresh servers and ports; otherwise it is counted inconclusive (more than 3-5 of those make the run exit 2)"],
)
