prop(
    "C10",
    pkg="c10",
    title="Text excluded by ignore comments cannot influence the result",
    technique="property-based testing (rapid) + native coverage-guided fuzzing (go test -fuzz, thorough tier): two-run metamorphic non-interference (replace excluded payload / replace excluded block by blank lines)",
    level="exploration",
    design_ref="DESIGN.md 2/C10",
    stages=[
        dict(run="^TestPropExcluded$",
             quick=dict(checks=24000, shards=16, timeout=900),
             thorough=dict(checks=320000, shards=16, timeout=7200)),
        dict(run="^TestPropExcludedInScalar$",
             quick=dict(checks=8000, shards=8, timeout=900),
             thorough=dict(checks=120000, shards=16, timeout=7200)),
        dict(run="^$", fuzz="FuzzMask", thorough=dict(fuzztime="420s", timeout=1200)),
    ],
    rule="generated rule files x insertion point (top / between rules / between groups / bottom) x exclusion form (ignore/line, ignore/next-line, "
         "ignore/begin..end, ignore/file, two adjacent forms) x payload lines drawn from a pool (Jinja, broken YAML, unbalanced quotes, tabs, "
         "rule-like text, YAML documents, anchors, and every kind of pint control comment incl. invalid ones and other ignore/* comments); each case "
         "is a pair of equally long files that differ only inside the excluded text (payload A vs payload B, or block vs blank lines); oracle: identical "
         "entries (rules with positions, parse errors, owners, file-level disabled checks, modified lines) and identical problems from the default "
         "offline checks, strict or relaxed. A second generator places the excluded block between the lines of a multi-line scalar value "
         "(literal expr, folded annotation, double-quoted expr) with two payloads padded to the same byte length (replacement relation only), "
         "half of them spelling text of the neighbouring value lines. Non-trivial: payload is not blank / a plain comment and the file has rules.",
    level_text="Generated-input search (rapid, fixed seeds) with a metamorphic oracle: what is excluded must not be observable. "
               "Held on N generated file pairs.",
    level_note="Base documents use plain/quoted/flow styles only (whitespace that directly follows a block scalar is content of that scalar by YAML's rules). "
               "An ignore/begin payload never contains ignore/end; an ignore/line payload contains no '#'.",
    assumptions=["inserting blank lines between rules only shifts line numbers (YAML semantics)"],
)
