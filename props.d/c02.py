prop(
    "C02",
    pkg="c02",
    title="Linting any input terminates with a renderable verdict, never a crash",
    technique="property-based testing (rapid) + fixture corpus mutation + native coverage-guided fuzzing (go test -fuzz, thorough tier): validity predicate over the whole lint pipeline, plus the real binary with drawn switches and configurations",
    level="exploration",
    design_ref="DESIGN.md 2/C02",
    needs_bin=True,
    crash_is_violation=True,
    stages=[
        dict(run="^TestCorpus$", quick=dict(shards=8, timeout=900), thorough=dict(shards=8, timeout=1800)),
        dict(run="^TestPropNeverCrashes$",
             quick=dict(checks=48000, shards=16, timeout=900),
             thorough=dict(checks=2400000, shards=16, timeout=7200)),
        dict(run="^$", fuzz="FuzzLint", thorough=dict(fuzztime="420s", timeout=1500)),
        dict(run="^$", fuzz="FuzzRuleFields", thorough=dict(fuzztime="420s", timeout=1500)),
        dict(run="^TestPropBinary$",
             quick=dict(checks=640, shards=16, timeout=900),
             thorough=dict(checks=32000, shards=16, timeout=7200)),
    ],
    rule="inputs: (a) every YAML fixture of the repository (rule files, txtar sections of cmd/pint/tests) verbatim and with 1-3 line/byte mutations "
         "(delete/duplicate/swap/re-indent lines, tabs, '---', truncation, junk bytes incl. non-UTF-8 / NUL / anchors / tags, splice, CRLF), (b) generated rule documents in "
         "every YAML style with 0-3 structural perturbations, optionally nested in wrappers or a block scalar, with pint control comments injected, (c) a table of "
         "hostile constants (empty rule, null, recursive alias, merge keys, complex keys, unterminated scalars ...) x strict/relaxed x prometheus/thanos schema x "
         "utf-8/legacy names. Predicate: no panic in parser/discovery/any check/sort/dedup/any reporter; every entry is a rule or an error; console (both duplicate "
         "modes), JSON, checkstyle and TeamCity rendering succeed; every problem line range and diagnostic position lies inside the file. Non-trivial: the parser "
         "produced at least one entry. Binary tier: real `pint lint --json --checkstyle` exit status in {0,1} and no Go panic / fatal error text on stderr.",
    level_text="Generated-input search (rapid, fixed seeds) with a validity predicate; crashes inside pint are caught per stage (recover) in-process and by "
               "scanning stderr of the real binary. Held on N inputs.",
    level_note="Checks run serially on the test goroutine (the worker pool of cmd/pint is covered by the binary tier and by C11). A case that exceeds 120 s is re-run "
               "alone; only a reproducible hang counts. Unrecoverable runtime failures (stack overflow) kill the test process and are reported as inconclusive by the "
               "driver unless reproduced by the binary tier.",
    assumptions=["offline checks only (online checks are C15's subject)"],
)
