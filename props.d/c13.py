prop(
    "C13",
    pkg="c13",
    title="Slicing a range query is invisible in its result",
    technique="property-based testing (rapid): reference model (run-length model of a presence bitmap on the evaluation grid "
              "read off the fake server's request log) + permutation of slice arrival order (held HTTP responses released in a "
              "drawn order; MergeRanges fed drawn permutations directly)",
    level="exploration",
    design_ref="DESIGN.md 2/C13",
    stages=[
        dict(run="^TestPropRangeQuery$",
             quick=dict(checks=1600, shards=8, timeout=600),
             thorough=dict(checks=64000, shards=16, timeout=3600)),
        dict(run="^TestPropRangeFailover$",
             quick=dict(checks=640, shards=8, timeout=600),
             thorough=dict(checks=24000, shards=16, timeout=3600)),
        dict(run="^TestPropMergeOrder$",
             quick=dict(checks=1600, shards=8, timeout=600),
             thorough=dict(checks=48000, shards=16, timeout=3600)),
    ],
    rule="(start, end, step): start at 0..2h+step second offsets from the 2-hour grid (0, 1s, 37s, 59m59s, 1h, 1h59m59s, any), windows "
         "from 1 step to 3 days (capped at 9000/16000 grid points quick/thorough), steps 1s..3h including 7m, 11m, 45m, 1h1m and arbitrary "
         "second counts that do not divide 2h; 1-4 series whose label sets have DIFFERENT label names (subsets of {instance, job, cluster, __name__}, including "
         "sets contained in one another; in a third of the cases two series are twins that differ ONLY in the metric name, with overlapping, shifted or "
         "complementary presence), listed in a drawn per-slice order in each response, with presence bitmaps made of runs of length 1,2,3, slice-1, slice, slice+1, "
         "2*slice or arbitrary, plus drawn 6-bit patterns written over every predicted slice boundary (islands, holes, runs ending/starting "
         "on the boundary); arrival order = drawn permutation. In a quarter of the cases every series is confined to the interior of ONE "
         "slice (1-3 short islands: nothing continues across a boundary, no two ranges of the result can merge). The http layer then asks the SAME "
         "client again (cache alive) 0-2 times - the same window (always for confined cases) or one shifted by 1-3 steps or a whole slice - with "
         "per-slice drawn response delays; every answer is judged by the same unsliced oracle for its own window. The real FailoverGroup.RangeQuery runs against a fake query_range that answers "
         "each slice from the bitmap and logs (start,end,step). Failover layer: the same query through a failover group of 2-3 bitmap "
         "servers holding DIFFERENT data (the later ones' bitmaps are the first one's shifted/inverted); every upstream but the last fails some "
         "slices (per-slice fault table: 503 / connection reset / timeout) and answers the others; the result must be the unsliced evaluation on "
         "the server whose URI it carries, never a per-slice mix; 0-2 further windows of the same expression and step (narrower, wider, "
         "shifted: they share aligned slices) are asked AT THE SAME TIME on the same group, answered slices take a drawn 0-6 ms while failing ones "
         "fail at once, and every call that returns without error is judged for its own window (a call that fails has no result to judge) (non-trivial there: >=2 slices and >=2 upstreams saw requests). "
         "Non-trivial: the request log shows >=2 slices and, at some slice boundary, some "
         "series has a run crossing it, a run ending/starting exactly on it, or a one-sample hole/island adjacent to it. Classes: "
         "layer : start on/off the 2h grid : step divides 2h or not : #slices bucket : boundary relations present.",
    level_text="Generated-input search (rapid, fixed seeds) against an independent reference model: maximal runs of present grid points -> "
               "[first, last+step-1s] per series, on the grid {g0+n*step} (phase taken from the slices pint actually requested) restricted to start <= t <= end. Says the relation held on "
               "N generated (window, bitmap, order) cases; no proof of absence.",
    level_note="Arrival order over HTTP is steered (all slices held, released one by one with the response flushed before the next) but the order in "
               "which pint's goroutines push results is ultimately the Go scheduler's; exact orders are covered by the MergeRanges layer, whose "
               "per-slice input mirrors the three glue lines of rangeQuery.Run (AppendSampleToRanges per series, ExpandRangesEnd). Steps above 3h "
               "are outside the stated domain and not generated. Out-of-domain observation (documented, not judged): for step > 4h with a window "
               "longer than one step, (2h).Round(step) is 0 and sliceRange never advances - RangeQuery does not return and keeps allocating "
               "(promql/series lookbackStep and alerts/count step are user-configurable). Whole-second timestamps only. "
               "The stated non-trivial rule (a run crossing/touching a boundary) does not count the confined cases, which are there for the cache-aliasing "
               "class of defects; that is why the non-trivial share is ~43% since they were added. "
               "Known finding C13-K1 (class range-before-requested-start): the reference model covers only grid points start <= t <= end (the grid "
               "phase comes from the request log); pint's output is compared as is and, if that fails, once more with everything stemming from grid "
               "points before start cut off. Only a case whose sole disagreement is pre-start presence and whose bitmap has a sample on a requested "
               "grid point before start counts as a hit of the listed finding; any other difference in the same case is a violation. The class keeps "
               "being generated (classes ending in :prestart). The MergeRanges layer cuts the pre-start part before comparing, because the requested "
               "window is RangeQuery's business, not MergeRanges'.",
    assumptions=["the fake server's JSON encoding of samples is what Prometheus sends (whole-second timestamps, series without samples omitted)",
                 "one upstream, healthy: errors/timeouts are C15's subject; a RangeQuery that fails or takes >90s is counted inconclusive, never a violation"],
)
