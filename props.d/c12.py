prop(
    "C12",
    pkg="c12",
    title="A 'dead code' report is never a false positive",
    technique="property-based testing (rapid): generated PromQL of the statement's fragment x generated full-label TSDB, "
              "differential against the real Prometheus engine + metamorphic 'unsatisfiable selector' relation",
    level="exploration",
    design_ref="DESIGN.md 2/C12",
    stages=[
        dict(run="^TestPropDead$",
             quick=dict(checks=40000, shards=16, timeout=600, shrinktime="8s"),
             thorough=dict(checks=1600000, shards=16, timeout=7200, env={"VERIF_PQ_DEPTH": 4})),
        dict(run="^TestPropDeadDirected$",
             quick=dict(checks=64000, shards=16, timeout=600, shrinktime="8s"),
             thorough=dict(checks=2400000, shards=16, timeout=7200)),
        dict(run="^TestPropConstFold$",
             quick=dict(checks=4000, shards=2, timeout=300, shrinktime="8s"),
             thorough=dict(checks=40000, shards=4, timeout=600)),
    ],
    rule="one evaluation = one (expression, database) pair: an expression of the statement's fragment (selectors with all matcher types, "
         "label-preserving instant and range functions, all aggregations by/without, arithmetic/comparison(+-bool, number operands)/and/unless "
         "with on/ignoring/group_left/group_right, `or` only at top level; labels a b c; random, or 'directed' = a join whose sides are built to "
         "carry different label sets, optionally wrapped; plus the small class <vector(N)|number> [arith] cmp [bool] <number>) on 4 generated "
         "databases in which every series carries every label with a non-empty value. For every dead source (= every promql/impossible "
         "'dead code in query' problem, cross-checked against ImpossibleCheck) the operation it belongs to (lowest common ancestor of the two "
         "sides' selectors) is evaluated by the real engine: arithmetic/comparison/and must be empty, unless must equal its left side, and "
         "making the flagged selector unsatisfiable must not change the whole query. Non-trivial: pint reported dead code AND both operands "
         "of that operation are non-empty on this database (constant class: a report exists). pint's verdicts are taken three ways and must agree: one utils.LabelsSource call on a freshly parsed query, and promql/impossible's problems from the REAL default check list run in process on ONE parsed entry (harness/pq/pintrun) as alerting and as recording rule; LabelsSource must be idempotent on a parsed query and no check may change the parsed query all checks share.",
    level_text="Generated-input search (rapid, fixed seeds) against the real PromQL engine as oracle. Says every dead-code report seen on N "
               "generated (expression, database) pairs was confirmed by evaluation; no proof of absence.",
    level_note="Databases stay inside the statement's domain (all labels present on all series). Engine errors of the flagged operation "
               "(many-to-many) are trivial. Classes listed in known_findings.json are excluded from generation by construction "
               "(counter labels_dropped_by_known_class_exclusions / excluded_known:*).",
    assumptions=["the vendored Prometheus engine (v0.303.0) defines what a query returns",
                 "harness in-memory storage.Queryable returns exactly the series matching the matchers",
                 "the report's operation is the lowest common ancestor of the owner's and the dead source's selectors"],
)
