prop(
    "C20",
    pkg="c20",
    title="Removing a rule that other rules depend on is reported, and only then",
    technique="stateful property-based testing (rapid): generated git histories over rule sets with a random reference graph, "
              "real git, pint's discovery + ci check selection in-process and through the real binary; reference dependants "
              "computed from the HEAD expressions with Prometheus' own PromQL parser",
    level="exploration",
    design_ref="DESIGN.md 2/C20",
    needs_bin=True,
    stages=[
        dict(run="^TestPropRemoval$",
             quick=dict(checks=960, shards=16, timeout=1800, shrinktime="15s"),
             thorough=dict(checks=32000, shards=16, timeout=10800, shrinktime="60s")),
    ],
    rule="a history = 1-2 commits on main with 1-4 files x 1-4 rules whose kind is random and whose names come from one 5-name "
         "vocabulary shared by recording and alerting rules (duplicate providers and same-name rules of the other kind arise on "
         "purpose); every expression is a template (aggregation, binary op with on/ignoring/group_left, range and subquery "
         "functions, unary minus, offset, absent, label_replace) over 1-2 references drawn from: metric selector by name (with and "
         "without matchers), {__name__=\"N\"}, ALERTS / ALERTS_FOR_STATE{alertname=\"N\"} (also with further matchers), "
         "{__name__=\"ALERTS\",alertname=\"N\"}, ALERTS without alertname, ALERTS{alertname!=\"N\"}, up. One expression in six selects the SAME metric two or three times with different names (several ALERTS{alertname=..}, "
         "several ALERTS_FOR_STATE, several plain selectors). One expression in eight is one pint cannot parse (mad_over_time(foo[5m]), limitk(2, foo), 'sum(', 'foo{': experimental "
         "functions pint never enables, broken queries; they mention no vocabulary name, so such a rule is a provider but never a "
         "dependant); every history that expects a warning ON a removed rule with such an expression is forced through the real binary, "
         "because removed entries are filtered in cmd/pint (checkRules). File 'alerts' and file 'alerts/g.yaml' exclude each other in the "
         "path pool and a file-dir commit pair deletes one and creates the other in the next commit. "
         "One file in three also holds a rule with a rule-level defect (recording "
         "rule with for/annotations, alert without expr, alert+record, duplicated key, bad label name/value; also added/removed on the "
         "branch) - such a rule is neither provider nor dependant, and the warnings for valid rules removed next to it are still "
         "demanded; one file in four holds two adjacent duplicate providers of equal height. The branch (1-4 commits, plus the directed "
         "operations del-dup-first = delete the first of an adjacent same-name pair so the survivor moves onto its lines, and consume = "
         "replace a rule in place by an equally tall dependant of the same kind) "
         "removes rules, all rules of one kind+name, whole files; adds replacements of a removed kind+name elsewhere; edits, "
         "duplicates and moves rules, renames files, makes cosmetic edits (lines shift); main may advance. Reference: for every "
         "fork-point rule whose kind+name no longer exists at HEAD, the HEAD rules selecting its metric / its alertname; a "
         "rule/dependency Warning must be reported on exactly those removed rules (path and first line in the fork-point version) "
         "that have dependants, listing exactly them (name, path, expression line). One history in six also runs the real "
         "`pint ci --json`. Non-trivial: at least one kind+name gone with dependants and at least one gone without dependants or "
         "replaced/reduced, in the same history.",
    level_text="Generated-input search (rapid, fixed seeds) over git histories and reference graphs against a reference computed "
               "from the generator's trees. Says reports and reference agreed on N generated histories; no proof of absence.",
    level_note="Branch names are drawn per case (feature: feature, fix/main, user/x/main, main2, xmain, release/1.0, fix/master, "
               "topic/feature; base: main, master; base given by --base-branch, by ci{baseBranch} or as origin/<base> with a "
               "remote-tracking ref); the feature branch is never the base branch, and every case whose feature branch ends in "
               "/<base> goes through the real binary (whether `pint ci` runs at all is decided from the names in cmd/pint). "
               "Dependants are derived from the expression text with prometheus/promql/parser (Inspect over VectorSelectors), not with "
               "pint's own expression tree. Regex alertname matchers are not generated (the statement speaks of selecting 'with its "
               "alertname'; whether alertname=~\"A|B\" counts is not determined). The order of the listed dependants is not compared.",
    assumptions=["git 2.39 reports a byte-identical delete+create in one commit as R100",
                 "commit messages never contain [skip ci] / [no ci]; no symlinks"],
)
