prop(
    "C17",
    pkg="c17",
    title="Pull-request commenting converges and is idempotent",
    technique="stateful property-based testing (rapid): the real CommentReporter + GitHub/GitLab reporters driven over loopback HTTP "
              "against stateful in-memory fakes of both APIs (comment store + request log), model-checked after every run",
    level="exploration",
    design_ref="DESIGN.md 2/C17",
    stages=[
        dict(run="^TestPropCommentRuns$",
             quick=dict(checks=1440, shards=16, timeout=600, shrinktime="10s"),
             thorough=dict(checks=64000, shards=16, timeout=3600, shrinktime="60s")),
        dict(run="^TestPropBinaryCI$",
             quick=dict(checks=32, shards=4, timeout=600, shrinktime="10s"),
             thorough=dict(checks=960, shards=16, timeout=3600, shrinktime="30s")),
    ],
    needs_bin=True,
    rule="a case = platform (github cannot delete / gitlab can) x maxComments in {1,2,5,50} x showDuplicates x a generated pull request "
         "(1-3 rule files, or 31-36 small ones; modified / new / deleted / renamed; one YAML document or several separated by '---' (whole documents and the leading '---' kept, added or removed by the pull request), comment lines that look like diff syntax, either version of a file possibly without a final newline; unified diff derived from a whole-file edit script in git order, with the 'No newline at end of file' marker) x a "
         "comment population (pint's own comments left by an earlier run, of which some are current and some stale; hand-made stale / moved / "
         "duplicated own comments; foreign positional, file-level and general comments; foreign replies; system notes; sometimes >1 API page) x "
         "2-6 runs whose report set evolves (add / drop / move / change text / unchanged / burst = more new problems than the budget on the "
         "first-sorting rule, so already commented problems come after the deferred ones; problems sharing check+lines; repeated issues; removed "
         "rules reported with AnchorBefore; symlinked paths; problem summaries / details / diagnostic messages and rule lines carrying text a "
         "platform or sanitiser could alter: @mentions and the PromQL @ modifier, HTML, markdown, #refs, table pipes, odd spacing, "
         "non-ASCII, multi-line and very long text) + settle runs repeating the last report set. Reports are synthetic Problems on rules "
         "parsed by pint's parser from the generated files, confined to rules with at least one line in the diff, ModifiedLines computed as "
         "discovery.GitBranchFinder does. Each run is reporter.NewCommentReporter(NewGithubReporter|NewGitLabReporter).Submit. "
         "Binary layer (TestPropBinaryCI): the real `pint ci` binary in a generated git repository whose pull-request branch introduces n real "
         "alerts/template problems, against the same fakes, with repository { github|gitlab { maxComments = 1..5 } } and n > maxComments, run "
         "ceil(n/max)+2 times; environment plain / GitHub Actions runner variables with owner+repo+baseuri in the configuration / everything but "
         "maxComments detected from GITHUB_REPOSITORY, GITHUB_API_URL, GITHUB_REF; checks budget per run as configured, no equal comment, coverage, "
         "convergence, two silent final runs (always non-trivial). "
         "Non-trivial (in-process property): >= 3 generated runs, more uncovered problems before run 0 than maxComments, and the population holds both a stale own "
         "comment and a foreign positional one. Classes: platform : maxComments : evolution operations used : scenario features.",
    level_text="Generated-input search (rapid, fixed seeds) over run sequences against an explicit model of the statement: (i) at most maxComments "
               "creations per run, (ii) nothing created that equals (path, line, side, trimmed text) a comment that existed before the run, (iii) a "
               "problem may lack a comment carrying its text at its file and one of its lines only if the run used its whole budget, (iv) on GitLab "
               "every own positional comment that corresponds to no reported problem is gone, no deleted comment equals (path, line, trimmed text) a "
               "comment the same summary produces on an empty pull request (shadow run = this run's pending comments), nothing else is deleted or "
               "edited; on GitHub nothing is, "
               "(v) repeating a run that had budget left, with unchanged reports, creates and deletes nothing, (vi) with unchanged reports at most "
               "floor(problems/maxComments) runs use the whole budget. Says the relations held on N generated sequences; no proof of absence.",
    level_note="The fakes model the documented REST behaviour (pagination defaults 30 / 20 with Link / X-Next-Page, 422 for a review-comment line outside "
               "the diff, body whitespace trimming as an option); they are not the real services. Comment placement inside a problem's line range is "
               "treated as implementation-defined (any line of the range on either side, or on GitHub any added line of the file, is accepted). General "
               "comments (review summary, 'too many comments' note) are outside the statement and only counted. Same-run duplicates and GitLab positions "
               "that do not name a diff line are counted as notes, not violations.",
    assumptions=["GitHub lists 30 items per page unless per_page is given and rejects review comments on lines outside the diff",
                 "GitLab echoes a discussion position's new_line/old_line as they were posted",
                 "a comment 'carries the text' of a problem when it names its check and severity and contains its summary and details"],
)
