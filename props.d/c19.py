prop(
    "C19",
    pkg="c19",
    title="Relaxed mode finds the same rules as strict mode, wherever they are nested",
    technique="property-based testing (rapid): differential strict-vs-relaxed parse + metamorphic wrapper relation",
    level="exploration",
    design_ref="DESIGN.md 2/C19",
    stages=[
        dict(run="^TestPropStrictVsRelaxed$",
             quick=dict(checks=24000, shards=8, timeout=600),
             thorough=dict(checks=1600000, shards=16, timeout=7200)),
        dict(run="^TestPropWrapper$",
             quick=dict(checks=24000, shards=8, timeout=600),
             thorough=dict(checks=1600000, shards=16, timeout=7200)),
    ],
    rule="generated strict-valid rule documents (ruledoc x yamlstyle: all scalar styles, indentations, flow maps, comments, CRLF) "
         "parsed strict and relaxed must give identical rules/positions; generated rule lists or groups documents wrapped in 0-4 "
         "levels of mappings/sequences/sibling keys/extra documents/one block-scalar level must give the same rules shifted by the "
         "wrapper's lines and columns. Non-trivial: strict-vs-relaxed case with >=2 rules and a multi-range (multi-line) field; "
         "wrapper case with a non-zero displacement.",
    level_text="Generated-input search (rapid, fixed seeds) against two executable oracles: the strict parser as reference for the "
               "relaxed one on identical bytes, and a shift relation between a rule list and the same list re-nested. Says the relation "
               "held on N generated documents; no proof of absence.",
    level_note="Trusts gopkg.in/yaml.v3 and the harness' YAML emitter (the wrapped text is verified to contain the base text line by line "
               "before the oracle is applied). Sibling keys never reuse rule field names (alert, record, expr, labels ...), which pint by "
               "design treats as an attempt to write a rule.",
    assumptions=["yaml.v3 decodes the emitted documents as intended", "positions on empty lines are compared by line only"],
)
