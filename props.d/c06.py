prop(
    "C06",
    pkg="c06",
    title="Reported positions spell the text they point at",
    technique="property-based testing (rapid) + native coverage-guided fuzzing (go test -fuzz, thorough tier): read-back round-trip of every extracted field position against the file bytes, plus caret-line parse-back",
    level="exploration",
    design_ref="DESIGN.md 2/C06",
    stages=[
        dict(run="^TestPropPositions$",
             quick=dict(checks=32000, shards=16, timeout=600),
             thorough=dict(checks=1600000, shards=16, timeout=7200)),
        dict(run="^TestPropKnownClasses$",
             quick=dict(checks=16000, shards=16, timeout=600),
             thorough=dict(checks=800000, shards=16, timeout=7200)),
        dict(run="^TestPropMaskedInScalar$",
             quick=dict(checks=4000, shards=8, timeout=600),
             thorough=dict(checks=80000, shards=16, timeout=7200)),
        dict(run="^$", fuzz="FuzzPositions", thorough=dict(fuzztime="420s", timeout=1200)),
    ],
    rule="generated rule documents (ruledoc x yamlstyle: plain/single/double quoted, literal/folded with every chomping indicator, multi-line "
         "plain/quoted, flow maps, comments, blank lines, indentation 1-6, strict / relaxed list / wrapped / YAML-in-block-scalar layouts); for every "
         "field node pint extracts the file characters at its positions must spell a prefix of its value covering all but trailing line breaks; "
         "rule line ranges enclose the fields; for a third of the cases the default checks run and every diagnostic's column range and console "
         "caret line must land on value[first-1:last] (half of those with the configurable checks switched on as well). A further generator puts "
         "lines hidden by pint ignore/line, ignore/next-line and ignore/begin..end inside literal and folded values (spaces of the value may then "
         "sit on any character of a hidden line). Non-trivial: a document with a multi-range (multi-line) field, or a quoted or block scalar.",
    level_text="Generated-input search (rapid, fixed seeds) with a round-trip oracle: the file itself is the reference for every position pint reports. "
               "Held on N generated documents; known classes are listed in known_findings.json and excluded by construction from the main property.",
    level_note="Trusts gopkg.in/yaml.v3's decoded values (pint's own Value) and the harness' YAML emitter to produce valid YAML. Trailing line breaks of "
               "block scalars carry no position by pint's design and are not demanded.",
    assumptions=["ASCII vocabulary (byte columns = character columns)", "trailing line breaks of a value need no position"],
)
