prop(
    "C11",
    pkg="c11",
    title="Results do not depend on worker count or scheduling",
    technique="property-based testing (rapid): permutation invariance of the report stream through the real "
              "Summary/Sort/Dedup/console/JSON code (in-process), differential runs of the real binary over "
              "--workers x GOMAXPROCS, and the same matrix under the race detector (-race build of cmd/pint)",
    level="exploration",
    design_ref="DESIGN.md 2/C11",
    needs_bin=True,
    needs_race_bin=True,
    stages=[
        dict(run="^TestPropPermutations$",
             quick=dict(checks=256, shards=8, timeout=600),
             thorough=dict(checks=5120, shards=16, timeout=5400)),
        dict(run="^TestPropWorkers$",
             quick=dict(checks=40, shards=4, timeout=600),
             thorough=dict(checks=608, shards=8, timeout=5400)),
        dict(run="^TestPropQueueing$",
             quick=dict(checks=2, shards=2, timeout=600),
             thorough=dict(checks=24, shards=4, timeout=3600)),
        dict(run="^TestPropRace$",
             quick=dict(checks=32, shards=4, timeout=900),
             thorough=dict(checks=304, shards=8, timeout=7200)),
    ],
    rule="layer 1: one evaluation = one arrival order (30 per input quick, 200 thorough; serial order is canonical, the reverse "
         "order is always included) of the real report stream produced by pint's checks on a generated input (2-5 rule files "
         "sharing pooled rules so that Dedup has work, symlinks, parse failures, 0-8 group-level labels per group, per-rule `team` "
         "labels checked against {{ $alert }}, >= 2 rule{} blocks with custom severities plus same-check severity ladders, `check 'promql/regexp' { smelly }` / `check 'promql/series'` "
         "settings blocks and smelly regexp selectors); "
         "layers 2/3: one evaluation = one invocation of the (race-instrumented) binary with --workers in {1,2,3,7,16,64} x "
         "GOMAXPROCS in {1,2,16} (6 settings per input quick, all 18 thorough; (1,1) is canonical), two fifths of the inputs online "
         "against a fake Prometheus (1-2 servers; in three quarters of them the main URI answers 504 for a drawn subset of query "
         "expressions and a failover URI answers everything), a third with an extra 40-160 rule group or the same volume spread over 10-40 files with recording rules repeated across files; prometheus{} blocks carry include/exclude path filters and tags (servers on closed ports for --offline inputs). A Go runtime 'fatal error:' in any run is a violation. "
         "Queueing layer (a handful of cases): 48-64 rules with distinct queries against a fake that answers at once, behind "
         "rateLimit 7-10 / timeout 2s / required, --workers 1, 8, 64; a difference counts only if the fake served every request "
         "within 300 ms and the harness never stalled longer than that, else the case is inconclusive (counted). Non-trivial: >= 8 reports, >= 2 files with reports, >= 1 duplicate group, >= 2 reports with "
         "equal (path, first line). distinct = distinct report multisets (layer 1) / distinct inputs (layers 2/3).",
    level_text="Generated-input search. Layer 1 owns the schedule of the only cross-goroutine channel (the report stream) and "
               "demands byte-identical console/JSON output, CountBySeverity and duplicate folding for every drawn arrival order "
               "of real report multisets; layers 2 and 3 sample the Go scheduler (not under harness control) and the race "
               "detector speaks only about executed schedules. Held on N orders / runs; no proof over all interleavings.",
    level_note="Interleavings inside pint's critical sections are sampled, not enumerated. Checkstyle/TeamCity output is not "
               "compared. stderr is compared after replacing `workers=N` in the one log line that echoes the flag.",
    assumptions=["all cross-goroutine communication of a lint run is the report stream into Summary.Report (cmd/pint/scan.go)",
                 "the fake Prometheus answers every query identically, so online reports are a function of the input only"],
)
