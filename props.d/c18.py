prop(
    "C18",
    pkg="c18",
    title="An accepted configuration never crashes a later lint run",
    technique="property-based testing (rapid): generated configurations over every documented block/option (valid / invalid / "
              "templated values) x rule files with regexp and template metacharacters; totality oracle in-process and through the real binary",
    level="exploration",
    design_ref="DESIGN.md 2/C18",
    needs_bin=True,
    crash_is_violation=True,
    stages=[
        dict(run="^TestPropTotality$",
             quick=dict(checks=8000, shards=32, parallel=32, timeout=900),
             thorough=dict(checks=160000, shards=32, parallel=32, timeout=7200)),
        dict(run="^TestPropBinary$",
             quick=dict(checks=320, shards=16, parallel=16, timeout=900),
             thorough=dict(checks=4800, shards=16, parallel=16, timeout=7200)),
    ],
    rule="pintcfg.Gen: ci, parser, owners, repository, prometheus (refused port 127.0.0.1:1), discovery (filepath / prometheusQuery "
         "with templates), checks, check \"promql/series\" / \"promql/regexp\" and 0-3 rule{} blocks with match/ignore sub-blocks and "
         "1-4 of the twelve configurable checks, every option drawn valid / invalid (0-15% per value) / templated (raw substitution, "
         "data-dependent failure, data-independent, unparsable), plus one structural defect in 4% of the files; list-valued options (values, keep/strip, enabled/disabled, include/exclude, tags, failover, owners) get sizes from {0,1,2,3,8,9,16,40}, numeric options include 0, 1 and the maximum; a third of the configurations carry a rule/label or alerts/annotation check derived from a real label / annotation of a rule of the file, with a values list of boundary size and the rule's value on the list or off it sorting first / in the middle / last, optionally with a token; perturbation modes: none / exactly one invalid value at a uniformly chosen value position / per-value rate; a quarter of the rule blocks get a \"focused\" match or ignore sub-block whose 2-9 filters are all derived from one rule of the rule file (so that rule passes every filter) with at most one filter - at any position - made invalid; x one rule file "
         "(1-2 groups, 1-3 rules) whose names, label keys/values and annotations carry ( ) [ ] \\ {{ }} * +? | ^ $ UTF-8 ...; x command "
         "{lint, ci, watch} x entry state. Totality: config.Load errors, or discovery + GetChecksForEntry + every Check + sort/dedup + "
         "all four reporters complete without panic (in-process; online checks in-process only when no query workers are started, "
         "otherwise through `pint -c cfg lint file`). Non-trivial: configuration accepted, it has a templated or regexp-valued option, "
         "and a rule containing a metacharacter reached a check built from a pattern (promql/aggregate, alerts/annotation, rule/label, "
         "rule/reject, rule/link, rule/name).",
    level_text="Generated-input search (rapid, fixed seeds) with a totality oracle: no panic on any accepted configuration over N "
               "generated (configuration, rule file, command, state) cases; no proof of absence.",
    level_note="Online checks talk to the refused port 127.0.0.1:1 only, so code behind a successful Prometheus response is not "
               "reached here. A panic that also occurs with the built-in default configuration is not attributed to the "
               "configuration (C02's subject) and only counted. Resource exhaustion (huge concurrency, rate limits that stall) is "
               "not generated. Timeouts of the binary are counted as inconclusive, never as violations.",
    assumptions=["a Go runtime crash of the binary is recognised by exit status 2 plus a 'panic:' / 'fatal error:' banner and a goroutine dump on stderr"],
)
