prop(
    "C04",
    pkg="c04",
    title="A 'non-existent label' template report is never a false positive",
    technique="property-based testing (rapid): generated PromQL x generated finite TSDB, differential against the real "
              "Prometheus engine (promql.NewEngine over an in-memory storage), source level and end to end through TemplateCheck",
    level="exploration",
    design_ref="DESIGN.md 2/C04",
    stages=[
        dict(run="^TestPropSources$",
             quick=dict(checks=40000, shards=16, timeout=600, shrinktime="8s"),
             thorough=dict(checks=1600000, shards=16, timeout=7200, env={"VERIF_PQ_DEPTH": 4})),
        dict(run="^TestPropTemplate$",
             quick=dict(checks=12000, shards=16, timeout=600, shrinktime="8s"),
             thorough=dict(checks=600000, shards=16, timeout=7200, env={"VERIF_PQ_DEPTH": 4})),
        dict(run="^TestPropSourcesExt$",
             quick=dict(checks=24000, shards=16, timeout=600, shrinktime="8s"),
             thorough=dict(checks=1200000, shards=16, timeout=7200, env={"VERIF_PQ_DEPTH": 4})),
        dict(run="^TestPropTemplateExt$",
             quick=dict(checks=6000, shards=16, timeout=600, shrinktime="8s"),
             thorough=dict(checks=300000, shards=16, timeout=7200, env={"VERIF_PQ_DEPTH": 4})),
    ],
    rule="one evaluation = one (expression, database) pair: a generated PromQL expression (typed grammar over metrics foo bar baz, "
         "labels a b c job instance (+__name__ in grouping lists), values \"1\" \"2\" \"\", regexes .* .+ 1|2; depth <= 3 quick / 4 thorough; "
         "stages *Sources/*Template use exactly the statement's fragment, stages *Ext add absent*(), vector/scalar/time/pi and date "
         "functions without argument) evaluated by the real Prometheus engine at a fixed instant on 4 generated databases (one dense, "
         "one where all metrics share one label set, two random with label subsets and gaps). Every returned series must be allowed by "
         "a live source of utils.LabelsSource (CanHaveLabel for every label incl. __name__); Template stages also run TemplateCheck on a "
         "synthetic alert naming every label and, for single-branch queries, require that a reported label occurs on no returned series. "
         "Non-trivial: evaluation succeeded with a non-empty vector AND some live source claims something (FixedLabels or excluded labels). alerts/template's problems come from the REAL default check list run in process on ONE parsed alerting-rule entry (harness/pq/pintrun); the sources read from that shared parsed query after the run (alerting and recording rule) must equal those of a fresh analysis, utils.LabelsSource must be idempotent on a parsed query and no check may change it.",
    level_text="Generated-input search (rapid, fixed seeds) against the real PromQL engine as oracle. Says no returned series contradicted "
               "pint's label analysis on N generated (expression, database) pairs; no proof of absence.",
    level_note="Only soundness of 'cannot have' is checked: pint saying a label is possible although it never occurs is allowed. Engine errors "
               "(many-to-many matching, duplicate label sets) and scalar results are counted as trivial. The oracle is Prometheus v0.303.0's "
               "engine with 5m lookback; classes listed in known_findings.json are left out of generation (counted as excluded_known:*).",
    assumptions=["the vendored Prometheus engine (v0.303.0) defines what a query returns",
                 "harness in-memory storage.Queryable returns exactly the series matching the matchers",
                 "the label universe is small (5 labels, 2 non-empty values) - label flow does not depend on the names"],
)
